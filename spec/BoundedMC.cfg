SPECIFICATION Spec
CONSTANT LegacyWeatherJson = FALSE
INVARIANTS OnlyInRange NeverPanics Emit
PROPERTY Decides
CHECK_DEADLOCK FALSE
