--------------------------- MODULE PrayerDayTrace ---------------------------
(***************************************************************************)
(* Trace validation of recorded public calls of prayer_times_dt against    *)
(* the pipeline specification (PrayerDayDefs) and the search specification *)
(* (the Closest choice of GoodDay), for C05, C07, C08, C09, C10, C11, C12. *)
(* One event = one experiment on the real code: the parameters on the      *)
(* integer grid, the results of the public calls involved (t = seconds of  *)
(* the civil day or -1 for Invalid, x = extreme flags, 7 entries each).    *)
(* Each event kind has exactly one accepting action, which states what the *)
(* property demands of that experiment and nothing more.                   *)
(***************************************************************************)
EXTENDS PrayerDayDefs, Json, IOUtils, TLC

Rec == ndJsonDeserialize(IOEnv.TRACE)
Start == atoi(IOEnv.START)

VARIABLE l
Ev == Rec[l]
Is(name) == l <= Len(Rec) /\ Ev.ev = name
Step == l' = l + 1

Abs(v) == IF v < 0 THEN -v ELSE v
Ok(r, p) == r.t[p] >= 0
Flagged(r, p) == r.x[p] = 1
SameEntry(r1, r2, p) == r1.t[p] = r2.t[p] /\ r1.x[p] = r2.x[p]
WellFormed(r) == /\ Len(r.t) = 7 /\ Len(r.x) = 7
                 /\ \A p \in P7 : r.t[p] \in -1..(DaySecs - 1) /\ r.x[p] \in {0, 1}
                 /\ \A p \in P7 : r.t[p] = -1 => r.x[p] = 0

\* parameters of the event in the spec's units (angles 0.01 degree)
PofEv(e) == [pol |-> e.p.pol, fa |-> e.p.fa \div 100, ia |-> e.p.ia \div 100, ima |-> e.p.ima \div 100,
             fi |-> e.p.fi, ii |-> e.p.ii, imi |-> e.p.imi, off |-> e.p.off, rnd |-> e.p.rnd, var |-> "base"]

-----------------------------------------------------------------------------
(* C05: seven entries; conventional entries ordered around Dhuhr; no flags without a policy *)
\* the morning entries are measured as seconds BEFORE that day's Dhuhr, the evening ones as seconds AFTER it,
\* both in (0, 12 h]; a minute of slack covers rounding of the two clock times in opposite directions
\* (on the very latitude where twilight stops existing Fajr is exactly 12 h before Dhuhr)
BeforeDhuhr(r, p) == (r.t[Dhuhr] - r.t[p]) % DaySecs
AfterDhuhr(r, p) == (r.t[p] - r.t[Dhuhr]) % DaySecs
HalfDay == 43200 + 60
\* an entry is "conventionally computed" when it is reported unflagged and the event exists that day,
\* i.e. the same call under policy None (Ev.a) reports it too
Conventional(r, p) == Ok(r, p) /\ ~Flagged(r, p) /\ Ok(Ev.a, p)
Both(r, p, q) == Conventional(r, p) /\ Conventional(r, q)
C05Call ==
    /\ Is("c05") /\ Ev.out = "ret7" /\ WellFormed(Ev.r) /\ WellFormed(Ev.a)
    /\ Ok(Ev.r, Dhuhr)
    /\ \A p \in {Imsaak, Fajr, Shurooq} : Conventional(Ev.r, p) =>
            BeforeDhuhr(Ev.r, p) > 0 /\ BeforeDhuhr(Ev.r, p) <= HalfDay
    /\ \A p \in {Asr, Maghrib, Isha} : Conventional(Ev.r, p) =>
            AfterDhuhr(Ev.r, p) > 0 /\ AfterDhuhr(Ev.r, p) <= HalfDay
    /\ Both(Ev.r, Imsaak, Fajr) => BeforeDhuhr(Ev.r, Imsaak) >= BeforeDhuhr(Ev.r, Fajr)
    /\ Both(Ev.r, Fajr, Shurooq) => BeforeDhuhr(Ev.r, Fajr) > BeforeDhuhr(Ev.r, Shurooq)
    /\ Both(Ev.r, Imsaak, Shurooq) => BeforeDhuhr(Ev.r, Imsaak) > BeforeDhuhr(Ev.r, Shurooq)
    /\ Both(Ev.r, Asr, Maghrib) => AfterDhuhr(Ev.r, Asr) < AfterDhuhr(Ev.r, Maghrib)
    /\ Both(Ev.r, Maghrib, Isha) => AfterDhuhr(Ev.r, Maghrib) < AfterDhuhr(Ev.r, Isha)
    /\ Both(Ev.r, Asr, Isha) => AfterDhuhr(Ev.r, Asr) < AfterDhuhr(Ev.r, Isha)
    /\ Ev.p.pol = PNone => \A p \in P7 : ~Flagged(Ev.r, p)
    /\ Step

(* C07: every call returns seven well-formed entries, Dhuhr among them, in bounded time *)
C07Call ==
    /\ Is("c07") /\ Ev.out = "ret7" /\ WellFormed(Ev.r) /\ Ok(Ev.r, Dhuhr)
    /\ Ev.ms <= 20000
    /\ Step

(* C08: a = the same call under policy None, b = under the policy *)
C08Call ==
    /\ Is("c08") /\ WellFormed(Ev.a) /\ WellFormed(Ev.b)
    /\ LET pol == Ev.p.pol  a == Ev.a  b == Ev.b IN
       \* (a) Fajr/Isha-only policies leave the other four alone
       /\ pol \in FajrIshaOnlyPolicies => \A p \in {Shurooq, Dhuhr, Asr, Maghrib} : SameEntry(a, b, p)
       \* (b) 'only if invalid' policies return valid Fajr/Isha unchanged and unflagged
       /\ pol \in InvalidPolicies => \A q \in {Fajr, Isha} : Ok(a, q) => SameEntry(a, b, q)
       \* ... and are the identity when everything exists (AngleBased too)
       /\ (pol \in (InvalidPolicies \cup {AngleBased}) /\ \A p \in P7 : Ok(a, p)) => \A p \in P7 : SameEntry(a, b, p)
       \* (c) not flagged => conventional; replaced => flagged (half-of-night exempt)
       /\ pol \notin {HalfAlways, HalfInvalid} =>
             \A p \in P7 : (Ok(b, p) /\ ~Flagged(b, p)) => SameEntry(a, b, p)
       \* no policy, no flag
       /\ \A p \in P7 : ~Flagged(a, p)
    /\ Step

\* (Until D9 was repaired two named actions, C08KnownF2 / C08KnownF3, accepted - while known_findings.json listed them -
\* the shapes "interval-defined Isha unchanged but flagged" and "AngleBased replaced a valid Fajr"; fixtures/ keeps
\* recorded events of both shapes, which this specification must reject.)

(* C09: nb = conventional results (same offsets and rounding, policy None) of the dates d+o,
   for o = -m..m where m is the distance of the nearest date on which Fajr and Isha both exist *)
NbOf(o) == CHOOSE n \in 1..Len(Ev.nb) : Ev.nb[n].o = o
HasNb(o) == \E n \in 1..Len(Ev.nb) : Ev.nb[n].o = o
GoodNb(n) == Ev.nb[n].t[Fajr] >= 0 /\ Ev.nb[n].t[Isha] >= 0
ClosestNb == CHOOSE n \in 1..Len(Ev.nb) :
                /\ GoodNb(n)
                /\ \A q \in 1..Len(Ev.nb) : GoodNb(q) =>
                      (Abs(Ev.nb[n].o) < Abs(Ev.nb[q].o) \/ (Abs(Ev.nb[n].o) = Abs(Ev.nb[q].o) /\ Ev.nb[n].o <= Ev.nb[q].o))
C09Call ==
    /\ Is("c09") /\ WellFormed(Ev.b)
    /\ HasNb(0)
    /\ \A n \in 1..Len(Ev.nb) : HasNb(-Ev.nb[n].o)                 \* the window is symmetric
    /\ \A n \in 1..Len(Ev.nb) : Abs(Ev.nb[n].o) <= Ev.ylen
    /\ IF \E n \in 1..Len(Ev.nb) : GoodNb(n)
       THEN LET g == Ev.nb[ClosestNb].t
                here == Ev.nb[NbOf(0)].t
                b == Ev.b IN
            IF Ev.p.pol = NGAllAlways
            THEN \A p \in P6 : b.t[p] = g[p] /\ (g[p] >= 0 => Flagged(b, p))
            ELSE \A q \in {Fajr, Isha} :
                    IF here[q] < 0 THEN b.t[q] = g[q] /\ Flagged(b, q)
                    ELSE b.t[q] = here[q] /\ ~Flagged(b, q)
       ELSE TRUE        \* no good date within the year: the property's precondition fails
    /\ Step

(* C10: here / nl = raw conventional results (policy None, no intervals, no offsets, unrounded)
   at the site and at the substitute latitude; b = the call under the policy (unrounded, no offsets) *)
Unwrap(t, dh) == dh + CircDiff(t, dh)
TabOf(raw, fajrIdx) ==
    [p \in P6 |-> LET src == IF p = Fajr THEN fajrIdx ELSE p IN
                  IF raw[src] >= 0 THEN [ok |-> TRUE, v |-> Unwrap(raw[src], raw[Dhuhr])]
                  ELSE [ok |-> FALSE, v |-> 0]]
VarsOf(raw) == [var \in {"base", "im"} |-> IF var = "base" THEN TabOf(raw, Fajr) ELSE TabOf(raw, Imsaak)]
EnvOf(e) == [here |-> VarsOf(e.here),
             nl |-> IF Len(e.nl) = 7 THEN VarsOf(e.nl) ELSE VarsOf(e.here),
             good |-> [var \in {"base", "im"} |-> NoGood]]
Agrees(c, r, p, tol) ==      \* model cell c vs observed entry p of r
    /\ c.ok = Ok(r, p)
    /\ c.ok => Near(r.t[p], Wrap(c.v), tol) /\ (c.x <=> Flagged(r, p))
C10Call ==
    /\ Is("c10") /\ WellFormed(Ev.b)
    /\ Ev.p.rnd = 0 /\ \A p \in P7 : Ev.p.off[p] = 0
    /\ Ev.p.pol \in {AngleBased, NLAllAlways, NLFIAlways, NLFIInvalid, SevNightAlways, SevNightInvalid,
                     SevDayAlways, SevDayInvalid, MinAlways, MinInvalid}
    /\ LET P == PofEv(Ev)
           h == Hours(P, EnvOf(Ev)) IN
       IF P.pol = NLAllAlways
       THEN \A p \in P6 : Agrees(h[p], Ev.b, p, 3)
       ELSE \A q \in {Fajr, Isha} : Agrees(h[q], Ev.b, q, 3)
    /\ Step

(* C11: r0 = the call unrounded, r = the same call under mode Ev.mode *)
C11Call ==
    /\ Is("c11") /\ WellFormed(Ev.r0) /\ WellFormed(Ev.r)
    /\ \A p \in P7 :
          /\ Ok(Ev.r, p) = Ok(Ev.r0, p) /\ Ev.r.x[p] = Ev.r0.x[p]
          /\ Ok(Ev.r0, p) => Ev.r.t[p] = RoundClock(Ev.mode, ClassOf(p), Ev.r0.t[p])
    /\ Step

(* C12: a = base call, b = the call with exactly one parameter changed (policy None) *)
Unchanged(a, b, S) == \A p \in S : SameEntry(a, b, p)
Shift(a, b, p, d) == /\ Ok(a, p) = Ok(b, p) /\ a.x[p] = b.x[p]
                     /\ Ok(a, p) => Near(b.t[p], a.t[p] + d, 1)
C12Call ==
    /\ Is("c12") /\ WellFormed(Ev.a) /\ WellFormed(Ev.b)
    /\ LET a == Ev.a  b == Ev.b  k == Ev.kind  d == Ev.d IN
       CASE k = "off" ->      \* minute offset of prayer Ev.key changed by d seconds (unrounded)
              IF Ev.key = Imsaak THEN Unchanged(a, b, P7)
              ELSE IF Ev.key = Fajr THEN Shift(a, b, Fajr, d) /\ Shift(a, b, Imsaak, d) /\ Unchanged(a, b, P7 \ {Fajr, Imsaak})
              ELSE Shift(a, b, Ev.key, d) /\ Unchanged(a, b, P7 \ {Ev.key})
         [] k = "iint" ->     \* Isha interval d set: Isha = Maghrib + d, nothing else moves
              /\ Unchanged(a, b, P7 \ {Isha})
              /\ Ok(b, Isha) = Ok(b, Maghrib)
              /\ Ok(b, Maghrib) => Near(b.t[Isha], b.t[Maghrib] + d, 1) /\ ~Flagged(b, Isha)
         [] k = "fint" ->     \* Fajr interval d set: Fajr = Shurooq - d; Imsaak is derived from Fajr
              /\ Unchanged(a, b, P7 \ {Fajr, Imsaak})
              /\ Ok(b, Fajr) = Ok(b, Shurooq)
              /\ Ok(b, Shurooq) => Near(b.t[Fajr], b.t[Shurooq] - d, 1) /\ ~Flagged(b, Fajr)
              /\ Ok(b, Shurooq) => Ok(b, Imsaak) /\ Near(b.t[Imsaak], b.t[Fajr] - DefImsaak, 1)
         [] k = "imint" ->    \* Imsaak interval d set: Imsaak = Fajr - d
              /\ Unchanged(a, b, P7 \ {Imsaak})
              /\ Ok(b, Imsaak) = Ok(b, Fajr)
              /\ Ok(b, Fajr) => Near(b.t[Imsaak], b.t[Fajr] - d, 1)
         [] k = "school" -> Unchanged(a, b, P7 \ {Asr})
         [] k = "fang" -> Unchanged(a, b, P7 \ {Fajr, Imsaak})
         [] k = "iang" -> Unchanged(a, b, P7 \ {Isha})
         [] k = "weather" ->  \* only Shurooq / Maghrib and the times derived from them may move
              Unchanged(a, b, {Dhuhr, Asr} \cup (IF Ev.p.fi = 0 THEN {Fajr, Imsaak} ELSE {})
                                           \cup (IF Ev.p.ii = 0 THEN {Isha} ELSE {}))
         [] k = "defw" -> Unchanged(a, b, P7)     \* absent weather = default weather
         [] k = "ipol" ->     \* b = a call under a policy that does not consume the intervals: an interval-defined
                              \* Fajr / Isha is that interval from the REPORTED Shurooq / Maghrib
              /\ (Ev.p.ii # 0 /\ Ok(b, Maghrib)) => Ok(b, Isha) /\ Near(b.t[Isha], b.t[Maghrib] + Ev.p.ii, 1)
              /\ (Ev.p.fi # 0 /\ Ok(b, Shurooq)) => Ok(b, Fajr) /\ Near(b.t[Fajr], b.t[Shurooq] - Ev.p.fi, 1)
         [] k = "xfajr" ->    \* b = a call under a policy: extreme Fajr => Imsaak 1.5 min before, extreme
              (Ok(b, Fajr) /\ Flagged(b, Fajr)) =>
                  /\ Ok(b, Imsaak) /\ Flagged(b, Imsaak)
                  /\ Near(b.t[Imsaak], b.t[Fajr] - (IF Ev.p.imi = 0 THEN DefImsaak ELSE Ev.p.imi), 1)
    /\ Step

(* CONFORMANCE (bin/conform; not a listed property): the whole pipeline function of PrayerDayDefs, applied to the raw
   conventional hours recorded for the site, the substitute latitude and the neighbouring dates, predicts the complete
   result of a call under any policy / interval / offset choice: validity, extreme flags, and times within 3 s. *)
GoodBase(n) == Ev.nb[n].t[Fajr] >= 0 /\ Ev.nb[n].t[Isha] >= 0
GoodIm(n) == Ev.nb[n].t[Imsaak] >= 0 /\ Ev.nb[n].t[Isha] >= 0
ClosestOf(G(_)) ==
    IF \E n \in 1..Len(Ev.nb) : G(n)
    THEN LET n == CHOOSE n \in 1..Len(Ev.nb) :
                     /\ G(n)
                     /\ \A q \in 1..Len(Ev.nb) : G(q) =>
                           (Abs(Ev.nb[n].o) < Abs(Ev.nb[q].o) \/ (Abs(Ev.nb[n].o) = Abs(Ev.nb[q].o) /\ Ev.nb[n].o <= Ev.nb[q].o))
         IN n
    ELSE 0
PipeEnv ==
    LET nbB == ClosestOf(GoodBase)  nbI == ClosestOf(GoodIm) IN
    [here |-> VarsOf(Ev.here),
     nl |-> IF Len(Ev.nl) = 7 THEN VarsOf(Ev.nl) ELSE VarsOf(Ev.here),
     good |-> [var \in {"base", "im"} |->
                 IF var = "base" THEN (IF nbB = 0 THEN NoGood ELSE Good(TabOf(Ev.nb[nbB].t, Fajr)))
                 ELSE (IF nbI = 0 THEN NoGood ELSE Good(TabOf(Ev.nb[nbI].t, Imsaak)))]]
PipeCall ==
    /\ Is("pipe") /\ WellFormed(Ev.b) /\ Ev.p.rnd = 0
    /\ LET P == PofEv(Ev)
           res == Result(P, PipeEnv) IN
       \A p \in P7 :
          /\ res[p].ok = Ok(Ev.b, p)
          /\ res[p].ok => Near(Ev.b.t[p], res[p].t, 3) /\ (res[p].x <=> Flagged(Ev.b, p))
    /\ Step

TraceInit == l = Start
TraceNext == PipeCall \/ C05Call \/ C07Call \/ C08Call \/ C09Call \/ C10Call \/ C11Call \/ C12Call
TraceSpec == TraceInit /\ [][TraceNext]_l

TraceAccepted ==
    LET d == TLCGet("stats").diameter IN
    /\ PrintT(<<"MATCHED", Start + d - 2, Len(Rec)>>)
    /\ Start + d - 2 = Len(Rec)
=============================================================================
