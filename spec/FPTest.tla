---- MODULE FPTest ----
EXTENDS Sun, TLC
Show(k, s) == LET u == SunAt(k, s) IN <<k, s, AppLong(k, s), Obliquity(k, s), u.gast, u.x, u.y, u.z>>
ASSUME PrintT(Show(0, 43200)) /\ PrintT(Show(8400, 3600)) /\ PrintT(Show(-146000, 80000)) /\ PrintT(Show(146000, 100))
VARIABLE x
Init == x = 0
Next == x' = x
====
