----------------------------- MODULE QiblaTrace -----------------------------
(***************************************************************************)
(* Trace validation for C16: recorded calls of Qibla::new / degrees /      *)
(* rotation / Display.  Event "qib": lat, lon (10^-4 degree), el,          *)
(* q (reported angle in 10^-4 degree), qu (in 10^-6 degree), rot, and the  *)
(* printed text parsed back: txt10 (tenths of a degree), txtlab.           *)
(* Event "qpair": two calls related by a symmetry, compared at 10^-6       *)
(* degree with integer arithmetic only.                                    *)
(***************************************************************************)
EXTENDS Qibla, Json, IOUtils, TLC

Rec == ndJsonDeserialize(IOEnv.TRACE)
Start == atoi(IOEnv.START)
VARIABLE l
Ev == Rec[l]
Is(name) == l <= Len(Rec) /\ Ev.ev = name
Step == l' = l + 1

Call ==
    /\ Is("qib") /\ Ev.out = "ret"
    /\ Ev.qu > -180000000 /\ Ev.qu <= 180000000            \* (-180, 180]
    /\ AbsI(Ev.qu - 100 * Ev.q) <= 50                      \* the two projections agree
    /\ Exempt(Ev.lat, Ev.lon) \/ IsBearing(Ev.lat, Ev.lon, Ev.q)
    /\ Ev.qu < 0 => Ev.rot = "CW"                           \* positive = counter-clockwise (west) of north
    /\ Ev.qu > 0 => Ev.rot = "CCW"                          \* (at exactly 0 either label agrees with the sign)
    /\ Ev.rot \in {"CW", "CCW"}
    /\ Ev.txtlab = Ev.rot                                  \* the printed text agrees in label ...
    /\ AbsI(Ev.txt10 * 100000 - AbsI(Ev.qu)) <= 50001      \* ... and in magnitude (one decimal)
    /\ Step

Pair ==
    /\ Is("qpair")
    /\ CASE Ev.kind = "elev" -> Ev.qa = Ev.qb                         \* elevation does not matter (exact)
         [] Ev.kind = "mirror" -> AbsI(Ev.qa + Ev.qb) <= 1 \/ (AbsI(Ev.qa) >= 179999999 /\ AbsI(Ev.qb) >= 179999999)
         [] Ev.kind = "meridian" ->      \* on the Kaaba's meridian the Kaaba is due north or due south; on the
                                         \* antimeridian the great circle runs over the nearer pole (lat5 = 10^-5 degree)
              LET north == AbsI(Ev.qa) <= 1   south == AbsI(Ev.qa) >= 179999999
                  klat5 == 2142333 IN
              /\ north \/ south
              /\ (~Ev.anti /\ Ev.lat5 > klat5 + 2000) => south
              /\ (~Ev.anti /\ Ev.lat5 < klat5 - 2000) => north
              /\ (Ev.anti /\ Ev.lat5 > 2000 - klat5) => north
              /\ (Ev.anti /\ Ev.lat5 < 0 - klat5 - 2000) => south
         [] Ev.kind = "side" -> (Ev.east => Ev.qa > 0) /\ (~Ev.east => Ev.qa < 0)
    /\ Step

TraceInit == l = Start
TraceNext == Call \/ Pair
TraceSpec == TraceInit /\ [][TraceNext]_l
TraceAccepted ==
    LET d == TLCGet("stats").diameter IN
    /\ PrintT(<<"MATCHED", Start + d - 2, Len(Rec)>>)
    /\ Start + d - 2 = Len(Rec)
=============================================================================
