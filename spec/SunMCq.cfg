SPECIFICATION Spec
CONSTANT Stride = 499
INVARIANTS UnitVector DecBounded ObliquityRange DailyMotion SiderealGain NoonNearTransit
CHECK_DEADLOCK FALSE
