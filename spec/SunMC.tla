-------------------------------- MODULE SunMC --------------------------------
(***************************************************************************)
(* Design-level checks of the environment specification Sun.tla: over a    *)
(* grid of dates 1600..2399 and times of day, the ephemeris stays inside   *)
(* its physical envelope: unit vector of length 1, |declination| <= the    *)
(* obliquity, obliquity 23.3..23.6 degree, the Sun's longitude advances    *)
(* 0.95..1.02 degree per day, sidereal time gains 3 m 56 s per day, and at *)
(* mean noon on the Greenwich meridian the hour angle is within the        *)
(* equation of time (17 minutes).  One state per grid point.               *)
(***************************************************************************)
EXTENDS Sun, Calendar, TLC

CONSTANT Stride      \* grid step in days

VARIABLES k, s, done
vars == <<k, s, done>>
Lo == DN(1600, 1, 1)
Hi == DN(2399, 12, 31)
Init == /\ k \in {Lo + Stride * i : i \in 0..((Hi - Lo) \div Stride)}
        /\ s \in {0, 21600, 43200, 80000}
        /\ done = FALSE
Eval == ~done /\ done' = TRUE /\ UNCHANGED <<k, s>>
Next == Eval
Spec == Init /\ [][Next]_vars

U == SunAt(k, s)
UnitVector == AbsI(MulS(U.x, U.x) + MulS(U.y, U.y) + MulS(U.z, U.z) - One) <= 6
DecBounded == AbsI(Dec(U)) <= Obliquity(k, s) + 5
ObliquityRange == Obliquity(k, s) \in 233000..236000
DailyMotion == NormS(AppLong(k + 1, s) - AppLong(k, s)) \in 9500..10200
SiderealGain == NormS(Gast(k + 1, s) - Gast(k, s)) \in 9850..9863
NoonNearTransit == s = 43200 => AbsI(NormS(Local(U, 0, 0).sh)) <= 75000 /\ Local(U, 0, 0).ch > 0
=============================================================================
