SPECIFICATION Spec
CONSTANT Step = 50000
INVARIANTS Defined InRange Mirror OnMeridian SignIsSide
CHECK_DEADLOCK FALSE
