---------------------------- MODULE RoundingDefs ----------------------------
(***************************************************************************)
(* hour_to_time (src/prayer_times/hours.rs) in whole seconds.              *)
(*   u     - the unrounded time in seconds after the minute offset was     *)
(*           added; may be negative or >= 86400 (intermediate hours)       *)
(*   mode  - 0 None, 1 NormalRounding, 2 SpecialRounding, 3 Aggressive     *)
(*   cls   - "round" for Fajr, Dhuhr, Asr, Maghrib, Isha (and Imsaak,      *)
(*           which is converted with Fajr's key), "trunc" for Shurooq      *)
(* Two definitions: the PROPERTY (C11) on h:m:s, and the implementation-   *)
(* shaped computation (wrap loop, split, carry, final wrap); Rounding.tla  *)
(* checks they agree for every second of the day and beyond.               *)
(***************************************************************************)
EXTENDS Integers

DaySecs == 86400

\* ---- property level: a fixed function of the unrounded clock time h:m:s
Threshold(mode, cls) ==      \* seconds value from which the minute is rounded up; 60 = never
    CASE mode = 0 -> 60
      [] mode = 1 -> 30
      [] mode = 2 -> IF cls = "round" THEN 30 ELSE 60
      [] mode = 3 -> IF cls = "round" THEN 1 ELSE 60

\* c = unrounded clock time in 0..86399
RoundClock(mode, cls, c) ==
    IF mode = 0 THEN c
    ELSE LET s == c % 60
             base == c - s
         IN IF s >= Threshold(mode, cls) THEN (base + 60) % DaySecs ELSE base

Wrap(u) == u % DaySecs          \* TLA+ % is the non-negative remainder

\* what the library must report for unwrapped seconds u
Expected(mode, cls, u) == RoundClock(mode, cls, Wrap(u))

\* ---- implementation-shaped: `while hour < 0 { hour += 24 }`, split, round_secs, rem(24)
RECURSIVE WrapLoop(_)
WrapLoop(u) == IF u < 0 THEN WrapLoop(u + DaySecs) ELSE u

Impl(mode, cls, u) ==
    LET w == WrapLoop(u)                      \* only negative hours are wrapped before the split
        s == w % 60
        rounds == \/ mode = 1
                  \/ mode \in {2, 3} /\ cls = "round"
        cap == IF mode = 3 THEN 1 ELSE 30
        w2 == IF mode = 0 THEN w
              ELSE IF rounds THEN (IF s >= cap THEN w - s + 60 ELSE w - s)
              ELSE w - s                      \* Shurooq under special/aggressive: sec = 0
    IN w2 % DaySecs                           \* `if hour >= 24 { hour.rem(24) }`

ClassOf(p) == IF p = 3 THEN "trunc" ELSE "round"     \* p: 1 Imsaak .. 7 Isha; 3 = Shurooq
=============================================================================
