------------------------------ MODULE RaInterp ------------------------------
(***************************************************************************)
(* get_ra_interp_deltas (src/prayer_times/hours.rs): the Sun's right       *)
(* ascension of yesterday / today / tomorrow (each reduced to [0, 360))    *)
(* is unwrapped across 360 -> 0 before the interpolation differences       *)
(*     delta1 = next - prev,   delta2 = next + prev - 2 today              *)
(* are formed.  Units: 0.01 degree.  The Sun moves `rate` per day          *)
(* (0.88 .. 1.12 degree), today's value c runs over the whole circle.      *)
(* Design-level lemma behind C01 / C02 / C13: whatever the position of the *)
(* wrap relative to the three days, delta1 = 2 rate and delta2 = 0.        *)
(* LegacyPrevZero re-enables the pre-fix behaviour (finding D1).           *)
(***************************************************************************)
EXTENDS Integers, TLC

CONSTANTS Step, LegacyPrevZero

Circle == 36000
VARIABLES c, rate, done
vars == <<c, rate, done>>

Init == /\ c \in {Step * i : i \in 0..((Circle - 1) \div Step)}
        /\ rate \in {88, 95, 100, 107, 112}
        /\ done = FALSE
Next == ~done /\ done' = TRUE /\ UNCHANGED <<c, rate>>
Spec == Init /\ [][Next]_vars

Prev == (c - rate) % Circle
NextRa == (c + rate) % Circle
J == 35000      \* 350 degrees
K == 1000       \* 10 degrees

\* the unwrapping of the code
NextU == IF c > J /\ NextRa < K THEN NextRa + Circle ELSE NextRa
PrevU == IF Prev > J /\ c < K
         THEN (IF LegacyPrevZero THEN 0 ELSE Prev - Circle)
         ELSE Prev
Delta1 == NextU - PrevU
Delta2 == NextU + PrevU - 2 * c

FirstDifference == Delta1 = 2 * rate
SecondDifference == Delta2 = 0
=============================================================================
