------------------------------ MODULE PrayerDay ------------------------------
(***************************************************************************)
(* prayer_times_dt downstream of the astronomy, as a state machine with    *)
(* one action per stage of the code:                                       *)
(*   GetHoursA -> PreIntervalA -> PolicyA -> IntervalA -> TimesA           *)
(*             -> Imsaak1A [-> Imsaak2A]                                   *)
(* Panic is a state, not an omission.  TLC explores every policy x         *)
(* validity pattern x interval / offset / rounding choice over a small     *)
(* environment of representative hours and checks C05, C07, C08, C10, C12  *)
(* as invariants of the finished call.                                     *)
(* LegacyUnwrap re-enables the pre-fix adj_for_int (finding D2).           *)
(***************************************************************************)
EXTENDS PrayerDayDefs, TLC

CONSTANTS LegacyUnwrap,
          Roundings,      \* subset of 0..3 explored
          FajrOffsets,    \* Fajr minute-offsets (seconds, >= 0) explored, e.g. {0, 90000}
          NegOffsets      \* BOOLEAN: also explore their negations

VARIABLES P, env, stage, h, res, panic
vars == <<P, env, stage, h, res, panic>>

-----------------------------------------------------------------------------
(* the small environment *)
Tab(f, s, d, a, m, i, okF, okSM, okA, okI) ==
    [p \in P6 |-> CASE p = Fajr    -> [ok |-> okF,  v |-> f]
                    [] p = Shurooq -> [ok |-> okSM, v |-> s]
                    [] p = Dhuhr   -> [ok |-> TRUE, v |-> d]
                    [] p = Asr     -> [ok |-> okA,  v |-> a]
                    [] p = Maghrib -> [ok |-> okSM, v |-> m]
                    [] p = Isha    -> [ok |-> okI,  v |-> i]]

\* both Fajr-angle variants of one place/date: only Fajr differs
Vars(f, fIm, okFIm, s, d, a, m, i, okF, okSM, okA, okI) ==
    [var \in {"base", "im"} |->
        IF var = "base" THEN Tab(f, s, d, a, m, i, okF, okSM, okA, okI)
        ELSE Tab(fIm, s, d, a, m, i, okFIm, okSM, okA, okI)]

\* validity patterns b = <<Fajr, Fajr at the Imsaak depression, Shurooq & Maghrib, Asr, Isha>>: ALL 32, at the site
\* and at the substitute latitude.  (Until the whole-pipeline conformance run was widened to polar sites and arbitrary
\* substitute latitudes the model explored 24 site patterns - assuming "the deeper Imsaak depression is reached only if
\* the Fajr depression is", false beyond 84.5 degrees - and 4 substitute-latitude patterns; 17 substitute patterns and 3
\* site patterns outside that environment occur in recorded calls, see bin/conform's environment report.)
\* Shurooq and Maghrib exist together (one cos H test in get_shur_magh); Dhuhr always exists.
Patterns == [1..5 -> BOOLEAN]
AllTrue == [k \in 1..5 |-> TRUE]
HereOf(b) == Vars(14431, 13812, b[2], 21645, 43229, 55830, 64859, 72000, b[1], b[3], b[4], b[5])
NlOf(b) == Vars(15931, 15312, b[2], 23145, 43229, 57330, 63359, 70500, b[1], b[3], b[4], b[5])
PatOf(tabs) == [k \in 1..5 |-> CASE k = 1 -> tabs["base"][Fajr].ok [] k = 2 -> tabs["im"][Fajr].ok
                                  [] k = 3 -> tabs["base"][Shurooq].ok [] k = 4 -> tabs["base"][Asr].ok
                                  [] OTHER -> tabs["base"][Isha].ok]
\* the Sun reaching the deeper Imsaak depression implies it reaches the Fajr depression: true below 84.5 degrees,
\* used only by invariants whose property is quantified over lower latitudes
Below84(tabs) == tabs["im"][Fajr].ok => tabs["base"][Fajr].ok
NLPolicies == {NLAllAlways, NLFIAlways, NLFIInvalid}
NGPolicies == {NGAllAlways, NGFIInvalid}
G1 == Tab(15031, 22245, 43829, 56430, 65459, 72600, TRUE, TRUE, TRUE, TRUE)
G2 == Tab(15631, 22845, 44429, 57030, 66059, 73200, TRUE, TRUE, TRUE, TRUE)
\* the nearest good day: none within the year, one at both depressions, or one at the Fajr angle but none at the
\* 1.5 degree deeper Imsaak depression (possible above ~70 degrees)
GoodSet == { [var \in {"base", "im"} |-> NoGood],
             [var \in {"base", "im"} |-> IF var = "base" THEN Good(G1) ELSE Good(G2)],
             [var \in {"base", "im"} |-> IF var = "base" THEN Good(G1) ELSE NoGood] }

Offsets(fo) == [p \in P7 |-> CASE p = Fajr -> fo [] p = Asr -> 180 [] p = Isha -> 0 - 120 [] OTHER -> 0]

Init ==
    /\ \E pol \in Policies, fi \in {0, 4800}, ii \in {0, 5400}, imi \in {0, 600},
          fo \in FajrOffsets \cup (IF NegOffsets THEN {0 - x : x \in FajrOffsets} ELSE {}), rnd \in Roundings :
          P = [pol |-> pol, fa |-> 1800, ia |-> 1700, ima |-> 150, fi |-> fi, ii |-> ii, imi |-> imi,
               off |-> Offsets(fo), rnd |-> rnd, var |-> "base"]
    \* the substitute latitude matters to the nearest-latitude policies only, the good day to the nearest-good-day ones
    /\ \E hb \in Patterns,
          nb \in (IF P.pol \in NLPolicies THEN Patterns ELSE {AllTrue}),
          good \in (IF P.pol \in NGPolicies THEN GoodSet ELSE {[var \in {"base", "im"} |-> NoGood]}) :
          env = [here |-> HereOf(hb), nl |-> NlOf(nb), good |-> good]
    /\ stage = "start"
    /\ h = [p \in P6 |-> Inv]
    /\ res = [p \in P7 |-> [ok |-> FALSE, t |-> 0, x |-> FALSE]]
    /\ panic = FALSE

-----------------------------------------------------------------------------
GetHoursA == /\ stage = "start" /\ stage' = "preint"
             /\ h' = GetHours(env, P.var)
             /\ UNCHANGED <<P, env, res, panic>>

\* the first adj_for_int call (repair of D9); absent in the pre-fix code (LegacyLateInt)
PreIntervalA == /\ stage = "preint"
                /\ IF ~LegacyLateInt /\ IntPanics(h, P, LegacyUnwrap)
                   THEN panic' = TRUE /\ stage' = "panic" /\ UNCHANGED h
                   ELSE h' = PreInt(h, P) /\ stage' = "policy" /\ UNCHANGED panic
                /\ UNCHANGED <<P, env, res>>

PolicyA == /\ stage = "policy" /\ stage' = "interval"
           /\ h' = PolicyW(h, P, env)
           /\ UNCHANGED <<P, env, res, panic>>

IntervalA == /\ stage = "interval"
             /\ IF IntPanics(h, P, LegacyUnwrap)
                THEN panic' = TRUE /\ stage' = "panic" /\ UNCHANGED h
                ELSE h' = AdjForInt(h, P) /\ stage' = "times" /\ UNCHANGED panic
             /\ UNCHANGED <<P, env, res>>

TimesA == /\ stage = "times" /\ stage' = "imsaak1"
          /\ res' = [p \in P7 |-> IF p = Imsaak THEN res[p] ELSE ToTime(P, p, h[p])]
          /\ UNCHANGED <<P, env, h, panic>>

\* first Imsaak run of the whole pipeline with adjusted parameters
Imsaak1A == /\ stage = "imsaak1"
            /\ IF HoursPanics(ImsaakP1(P), env, LegacyUnwrap)
               THEN panic' = TRUE /\ stage' = "panic" /\ UNCHANGED res
               ELSE /\ UNCHANGED panic
                    /\ IF ImsaakNeedsPass2(P, env)
                       THEN stage' = "imsaak2" /\ UNCHANGED res
                       ELSE /\ stage' = "done"
                            /\ res' = [res EXCEPT ![Imsaak] =
                                          ToTime(ImsaakP1(P), Fajr, Hours(ImsaakP1(P), env)[Fajr])]
            /\ UNCHANGED <<P, env, h>>

\* Fajr of the first run was extreme: re-run with the original parameters and a minute offset
Imsaak2A == /\ stage = "imsaak2"
            /\ IF HoursPanics(ImsaakP2(P), env, LegacyUnwrap)
               THEN panic' = TRUE /\ stage' = "panic" /\ UNCHANGED res
               ELSE /\ UNCHANGED panic /\ stage' = "done"
                    /\ res' = [res EXCEPT ![Imsaak] =
                                  LET t == ToTime(ImsaakP2(P), Fajr, Hours(ImsaakP2(P), env)[Fajr]) IN
                                  IF t.ok /\ ~LegacyImsaakFlag THEN [t EXCEPT !.x = TRUE] ELSE t]
            /\ UNCHANGED <<P, env, h>>

Next == GetHoursA \/ PreIntervalA \/ PolicyA \/ IntervalA \/ TimesA \/ Imsaak1A \/ Imsaak2A
Spec == Init /\ [][Next]_vars /\ WF_vars(Next)

-----------------------------------------------------------------------------
Done == stage = "done"
NoneP == [P EXCEPT !.pol = PNone]
ResNone == Result(NoneP, env)                 \* the conventional result for the same parameters
Same(a, b) == a.ok = b.ok /\ (a.ok => a.t = b.t /\ a.x = b.x)

\* the staged machine computes the pure function the trace spec uses
StagedIsPure == Done => res = Result(P, env)

\* C07: no panic, the call finishes with seven entries, Dhuhr always reported
NoPanic == ~panic
Finishes == <>(stage \in {"done", "panic"})
SevenEntries == Done => DOMAIN res = P7 /\ res[Dhuhr].ok

\* C05: with no policy nothing is flagged extreme
NoPolicyNoFlags == (Done /\ P.pol = PNone) => \A p \in P7 : ~res[p].x

\* C08 is quantified over the 8 named methods: none defines Fajr by an interval.  (Until D9 was repaired this
\* definition also ASSUMED that for the two methods that define Isha by an interval, Isha angle 0, "the conventional
\* Isha exists exactly when Maghrib does" - an assumption about the environment that the real Sun does not honour
\* where it culminates between -0.83 and 0 degrees, and that hid the findings F2 / F3 = D9 at design level; the
\* trace check found them.  The assumption is gone: LegacyLateInt = TRUE now violates InvalidKeepsValid and
\* IdentityWhenAllValid in TLC.)
\* A second assumption of the same kind - "at the substitute latitude the placeholder Isha exists exactly when Maghrib
\* does", true within [-60, 60] only - hid D10 (an Isha derived from a replaced Maghrib reported unflagged); it is gone
\* too: LegacyIntFlag = TRUE violates UnflaggedIsConventional.
NamedMethodShape == P.fi = 0
QuantifiedC08 == NamedMethodShape /\ (P.pol \in IntervalConsumers => P.fi = 0 /\ P.ii = 0)
\* C08 (a): a policy restricted to Fajr and Isha never changes Shurooq, Dhuhr, Asr, Maghrib
FajrIshaOnly == (Done /\ P.pol \in FajrIshaOnlyPolicies /\ QuantifiedC08) =>
                    \A p \in {Shurooq, Dhuhr, Asr, Maghrib} : Same(res[p], ResNone[p])
\* C08 (b): an 'only if invalid' policy returns every conventionally valid Fajr/Isha unchanged and unflagged
\* (interval consumers quantified over angle-defined Fajr/Isha only)
InvalidKeepsValid == (Done /\ P.pol \in InvalidPolicies /\ QuantifiedC08) =>
                         \A q \in {Fajr, Isha} : ResNone[q].ok => Same(res[q], ResNone[q])
\* ... so it is the identity on days where all times exist (AngleBased included)
IdentityWhenAllValid ==
    (Done /\ P.pol \in (InvalidPolicies \cup {AngleBased}) /\ QuantifiedC08 /\ \A p \in P7 : ResNone[p].ok) =>
        \A p \in P7 : Same(res[p], ResNone[p])
\* C08 (c): a time not flagged extreme equals the conventional time (half-of-night exempt)
UnflaggedIsConventional ==
    (Done /\ P.pol \notin {HalfAlways, HalfInvalid} /\ QuantifiedC08) =>
        \A p \in P7 : (res[p].ok /\ ~res[p].x) => Same(res[p], ResNone[p])

\* C10: an interval-defined Fajr / Isha keeps that definition under every policy that does not consume the intervals
IntervalKept ==
    (Done /\ P.pol \notin IntervalConsumers /\ P.rnd = 0) =>
        /\ (P.fi # 0 /\ res[Shurooq].ok) =>
              res[Fajr].ok /\ Near(res[Fajr].t, res[Shurooq].t - P.off[Shurooq] - P.fi + P.off[Fajr], 0)
        /\ (P.ii # 0 /\ res[Maghrib].ok) =>
              res[Isha].ok /\ Near(res[Isha].t, res[Maghrib].t - P.off[Maghrib] + P.ii + P.off[Isha], 0)

\* C12: when Fajr is extreme, Imsaak is extreme too and 1.5 minutes (or the Imsaak interval) before it
ImsaakFollowsExtremeFajr ==
    (Done /\ res[Fajr].ok /\ res[Fajr].x) =>
        /\ res[Imsaak].ok /\ res[Imsaak].x
        /\ P.rnd = 0 => Near(res[Imsaak].t, res[Fajr].t - (IF P.imi = 0 THEN DefImsaak ELSE P.imi), 0)
\* C12: an Imsaak interval makes Imsaak = Fajr - interval (conventional Fajr)
ImsaakInterval ==
    (Done /\ P.imi # 0 /\ P.rnd = 0 /\ res[Fajr].ok /\ (P.fi = 0 \/ P.pol \notin IntervalConsumers)) =>
        res[Imsaak].ok /\ Near(res[Imsaak].t, res[Fajr].t - P.imi, 0)
\* C12: a minute offset reaches exactly its own prayer (Imsaak follows Fajr's; the Imsaak key has no effect)
Shifted(p, d) == [P EXCEPT !.off[p] = @ + d]
OffsetFrame ==
    Done => \A p \in P7 :
        LET r2 == Result(Shifted(p, 300), env) IN
        \A q \in P7 : (q # p /\ ~(p = Fajr /\ q = Imsaak)) => Same(r2[q], res[q])
OffsetShifts ==
    (Done /\ P.rnd = 0) => \A p \in P6 :
        LET r2 == Result(Shifted(p, 300), env) IN
        /\ r2[p].ok = res[p].ok
        /\ res[p].ok => Near(r2[p].t, res[p].t + 300, 0) /\ r2[p].x = res[p].x
        /\ p = Fajr => (r2[Imsaak].ok = res[Imsaak].ok /\ (res[Imsaak].ok => Near(r2[Imsaak].t, res[Imsaak].t + 300, 0)))

\* scenario emission for spec -> impl replay: one line per finished abstract call
Pattern(tab) == [p \in P6 |-> tab[p].ok]
Emit == Done => PrintT(<<"SCEN", P.pol, P.fi # 0, P.ii # 0, P.imi # 0,
                         Pattern(env.here["base"]), env.here["im"][Fajr].ok,
                         [p \in P7 |-> <<res[p].ok, res[p].x>>]>>)
=============================================================================
