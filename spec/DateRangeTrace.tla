--------------------------- MODULE DateRangeTrace ---------------------------
(***************************************************************************)
(* Trace validation for C14: every recorded call of DateRange::num_days,   *)
(* DateRange::partition and prayer_times_dt_rng must be explained by the   *)
(* property level of DateRangeDefs.  One event per public call, with its   *)
(* arguments and its (losslessly summarised) result.  An event with        *)
(* out = "panic" or "hang" has no matching action.                         *)
(***************************************************************************)
EXTENDS DateRangeDefs, Json, IOUtils, TLC

Rec == ndJsonDeserialize(IOEnv.TRACE)
Start == atoi(IOEnv.START)

VARIABLE l
Ev == Rec[l]

IsEvent(name) == l <= Len(Rec) /\ Ev.ev = name /\ l' = l + 1

\* num_days(): the reported number of days matches
NumDaysCall == IsEvent("nd") /\ Ev.n = NumDays(Ev.s, Ev.e)

\* partition(k)
PartitionCall == IsEvent("part") /\ Ev.out = "ret" /\ IsPartition(Ev.s, Ev.e, Ev.k, Ev.bl)

\* prayer_times_dt_rng: one entry per date of the range, each equal to the single-date API
RangeCall == /\ IsEvent("rng") /\ Ev.out = "ret"
             /\ IsRangeResult(Ev.s, Ev.e, Ev.n, Ev.first, Ev.last, Ev.contig)
             /\ Ev.eq

TraceInit == l = Start
TraceNext == NumDaysCall \/ PartitionCall \/ RangeCall
TraceSpec == TraceInit /\ [][TraceNext]_l

\* acceptance: the whole trace was consumed (depth-first queue, one worker)
TraceAccepted ==
    LET d == TLCGet("stats").diameter IN
    /\ PrintT(<<"MATCHED", Start + d - 2, Len(Rec)>>)
    /\ Start + d - 2 = Len(Rec)
=============================================================================
