------------------------------- MODULE Hijri -------------------------------
(***************************************************************************)
(* The conversion of src/hijri_date.rs as a state machine, one action per  *)
(* loop iteration, checked against the tabular calendar of HijriDefs for   *)
(* every day in a window around the epoch (C17).                           *)
(* Legacy* constants re-enable the pre-fix behaviour (finding D5).         *)
(***************************************************************************)
EXTENDS HijriDefs, Calendar, TLC

CONSTANTS YearsBefore, YearsAfter,   \* window: Epoch - 355*YearsBefore .. Epoch + 355*YearsAfter
          LegacyYearLe,              \* hijri_year uses <= for dates before the epoch
          LegacyLeapAbs              \* is_hijri_leap_year uses abs()

Abs(x) == IF x < 0 THEN -x ELSE x

\* is_hijri_leap_year
LeapImpl(y) == IF LegacyLeapAbs THEN (Abs(11 * y) + 14) % 30 < 11
               ELSE (11 * y + 14) % 30 < 11
\* days_in_month
DimImpl(m, y) == IF m % 2 # 1 /\ (m # 12 \/ ~LeapImpl(y)) THEN 29 ELSE 30
\* hijri_abs_date (the float expression, all operands integral after floor)
AbsDate(d, m, y) == d + 29 * (m - 1) + (m \div 2) + 354 * (y - 1) + ((3 + 11 * y) \div 30) + Epoch - 1

VARIABLES a,        \* absolute Gregorian day being converted
          pc,       \* "start" | "yneg" | "ypos" | "month" | "done"
          year, month,
          res,      \* the reported record once pc = "done"
          steps     \* loop iterations so far (bounded-time part of the property)
vars == <<a, pc, year, month, res, steps>>

NoRes == [y |-> 0, m |-> 0, d |-> 0, bh |-> FALSE]

Init == /\ a \in (Epoch - 355 * YearsBefore)..(Epoch + 355 * YearsAfter)
        /\ pc = "start" /\ year = 0 /\ month = 1 /\ res = NoRes /\ steps = 0

Start == /\ pc = "start"
         /\ IF a < Epoch
            THEN year' = 0 /\ pc' = "yneg"
            ELSE year' = (a - Epoch - 1) \div 355 /\ pc' = "ypos"
         /\ UNCHANGED <<a, month, res, steps>>

YearNeg == /\ pc = "yneg"
           /\ IF (IF LegacyYearLe THEN a <= AbsDate(1, 1, year) ELSE a < AbsDate(1, 1, year))
              THEN year' = year - 1 /\ steps' = steps + 1 /\ UNCHANGED pc
              ELSE pc' = "month" /\ UNCHANGED <<year, steps>>
           /\ UNCHANGED <<a, month, res>>

YearPos == /\ pc = "ypos"
           /\ IF a >= AbsDate(1, 1, year + 1)
              THEN year' = year + 1 /\ steps' = steps + 1 /\ UNCHANGED pc
              ELSE pc' = "month" /\ UNCHANGED <<year, steps>>
           /\ UNCHANGED <<a, month, res>>

MonthStep == /\ pc = "month"
             /\ IF a > AbsDate(DimImpl(month, year), month, year) /\ month < 40
                THEN month' = month + 1 /\ steps' = steps + 1 /\ UNCHANGED <<pc, res>>
                ELSE /\ pc' = "done"
                     /\ res' = [y  |-> IF year <= 0 THEN -(year - 1) ELSE year,
                                m  |-> month,
                                d  |-> a - AbsDate(1, month, year) + 1,
                                bh |-> year <= 0]
                     /\ UNCHANGED <<month, steps>>
             /\ UNCHANGED <<a, year>>

Next == Start \/ YearNeg \/ YearPos \/ MonthStep
Spec == Init /\ [][Next]_vars /\ WF_vars(Next)

-----------------------------------------------------------------------------
Correct == pc = "done" => res = Tab(a)
\* month() / Display unwrap HijriMonth::try_from(month): anything outside 1..12 panics
NoPanic == pc = "done" => res.m \in 1..12 /\ res.d \in 1..30
Bounded == steps <= YearsBefore + YearsAfter + 14
Terminates == <>(pc = "done")
=============================================================================
