SPECIFICATION Spec
CONSTANTS
  YLo = 1583
  YHi = 2399
  LegacyCentury = FALSE
INVARIANT MatchesDayCount
PROPERTY OneDayApart
CHECK_DEADLOCK FALSE
