---------------------------- MODULE SurfaceTrace ----------------------------
(* Conformance of the real code to Surface.tla; one accepting action per event kind. *)
EXTENDS Surface, Json, IOUtils, TLC

Rec == ndJsonDeserialize(IOEnv.TRACE)
Start == atoi(IOEnv.START)
VARIABLE l
Ev == Rec[l]
Is(name) == l <= Len(Rec) /\ Ev.ev = name
Step == l' = l + 1

\* Params::new(method) is the documented table
MethodCall == /\ Is("meth")
              /\ LET m == MethodTable[Ev.meth + 1] IN
                 /\ Ev.p.fa = m.fa /\ Ev.p.ia = m.ia /\ Ev.p.ima = m.ima
                 /\ Ev.p.fi = m.fi /\ Ev.p.ii = m.ii /\ Ev.p.imi = m.imi
                 /\ Ev.p.rnd = m.rnd /\ Ev.p.sch = m.sch /\ Ev.p.pol = m.pol /\ Ev.p.off = m.off
              /\ Step

\* text of a PrayerTime, parsed back by the harness: h12, mm, pm, ext
ClockText == /\ Is("clock") /\ Ev.parsed
             /\ Ev.h12 = Hour12(Ev.t) /\ Ev.mm = Minute(Ev.t) /\ Ev.pm = IsPM(Ev.t) /\ Ev.ext = (Ev.x = 1)
             /\ Step

\* text of Latitude / Longitude / Elevation
CoordText == /\ Is("coord") /\ Ev.parsed
             /\ CASE Ev.kind = "lat" -> Ev.n = RoundAbs(Ev.v) /\ Ev.dir = LatDir(Ev.v) /\ Ev.isnorth = (Ev.v >= 0)
                  [] Ev.kind = "lon" -> Ev.n = RoundAbs(Ev.v) /\ Ev.dir = LonDir(Ev.v) /\ Ev.isnorth = (Ev.v >= 0)
                  [] Ev.kind = "el" -> Ev.n = RoundAbs(Ev.v) /\ Ev.dir = "meters"
             /\ Step

Names == /\ Is("names")
         /\ Ev.months = HijriMonths /\ Ev.days = HijriDays /\ Ev.prayers = PrayerNames
         /\ Step

RoundTrip == Is("json") /\ Ev.same /\ Step

\* the tool's date defaults; "today" may have changed while the tool ran (before / after)
CliDates == /\ Is("clidates") /\ Ev.exit = 0 /\ Ev.contiguous
            /\ \E today \in {Ev.before, Ev.after} :
                  LET rng == CliRange(Ev.mode, Ev.d, today) IN
                  /\ Ev.count = CliCount(rng)
                  /\ Ev.count > 0 => Ev.first = rng[1] /\ Ev.last = rng[2]
            /\ Step

TraceInit == l = Start
TraceNext == MethodCall \/ ClockText \/ CoordText \/ Names \/ RoundTrip \/ CliDates
TraceSpec == TraceInit /\ [][TraceNext]_l
TraceAccepted ==
    LET d == TLCGet("stats").diameter IN
    /\ PrintT(<<"MATCHED", Start + d - 2, Len(Rec)>>)
    /\ Start + d - 2 = Len(Rec)
=============================================================================
