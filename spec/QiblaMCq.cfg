SPECIFICATION Spec
CONSTANT Step = 100000
INVARIANTS Defined InRange Mirror OnMeridian SignIsSide
CHECK_DEADLOCK FALSE
