SPECIFICATION Spec
CONSTANT LegacyNoTruncate = TRUE
INVARIANTS AcceptComplete
CHECK_DEADLOCK FALSE
