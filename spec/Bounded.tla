------------------------------ MODULE Bounded ------------------------------
(***************************************************************************)
(* Construction of a validated quantity as a small state machine: a value  *)
(* class arrives over a route (number / text / JSON / composite JSON       *)
(* document), is parsed to a double where the route is textual, is range   *)
(* checked, and is accepted or rejected.  One action per stage of          *)
(* src/lib.rs (Bounded::try_from, Parsable::parse) and of the serde        *)
(* attributes in coordinates.rs / weather.rs.                              *)
(* LegacyWeatherJson re-enables the pre-fix behaviour (finding D6:         *)
(* Pressure/Temperature derive Deserialize without try_from).              *)
(***************************************************************************)
EXTENDS Integers, TLC

CONSTANT LegacyWeatherJson

Types == 1..6
Classes == {"nan", "pinf", "ninf", "below_far", "below_ulp", "lo", "inside", "zero", "hi",
            "above_ulp", "above_far", "garbage"}
Routes == {"num", "txt", "json", "doc"}
HasRoute(ty, route) == route \in {"num", "json", "doc"} \/ (route = "txt" /\ ty <= 4)
InRangeC(c) == c \in {"lo", "inside", "zero", "hi"}
\* zero lies outside Pressure's range [100, 1050]
ClassOk(ty, c) == ~(ty = 5 /\ c = "zero")
Numeric(c) == c # "garbage"
Finite(c) == c \notin {"nan", "pinf", "ninf", "garbage"}

VARIABLES ty, cls, route, stage, outcome
vars == <<ty, cls, route, stage, outcome>>

Init == /\ ty \in Types /\ cls \in Classes /\ route \in Routes
        /\ HasRoute(ty, route) /\ ClassOk(ty, cls)
        /\ (cls = "garbage" => route # "num")           \* a number is never garbage
        /\ stage = "input" /\ outcome = "none"

\* textual routes first obtain a double
Parse ==
    /\ stage = "input"
    /\ CASE route = "num" -> stage' = "number" /\ UNCHANGED outcome
         [] route = "txt" ->          \* str::parse::<f64>: accepts "NaN", "inf", rejects garbage
              IF Numeric(cls) THEN stage' = "number" /\ UNCHANGED outcome
              ELSE stage' = "done" /\ outcome' = "reject"
         [] OTHER ->                  \* JSON has no NaN/inf literal (they serialise as null)
              IF Finite(cls) THEN stage' = "number" /\ UNCHANGED outcome
              ELSE stage' = "done" /\ outcome' = "reject"
    /\ UNCHANGED <<ty, cls, route>>

\* Bounded::try_from: range().contains(&value); IEEE comparisons with NaN are false
RangeCheck ==
    /\ stage = "number"
    /\ stage' = "done"
    /\ outcome' = IF LegacyWeatherJson /\ ty >= 5 /\ route \in {"json", "doc"}
                  THEN "accept"                       \* derive(Deserialize) newtype: no check
                  ELSE IF InRangeC(cls) THEN "accept" ELSE "reject"
    /\ UNCHANGED <<ty, cls, route>>

Next == Parse \/ RangeCheck
Spec == Init /\ [][Next]_vars /\ WF_vars(Next)

-----------------------------------------------------------------------------
OnlyInRange == stage = "done" => (outcome = "accept" <=> InRangeC(cls))
NeverPanics == outcome \in {"none", "accept", "reject"}
Decides == <>(stage = "done")
\* one line per cell of the decision table, for the spec -> impl replay
Emit == stage = "done" => PrintT(<<"CELL", ty, cls, route, outcome>>)
=============================================================================
