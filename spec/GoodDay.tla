------------------------------ MODULE GoodDay ------------------------------
(***************************************************************************)
(* adj_near_good's search (src/prayer_times/ext_lat.rs): probe d-0, d+0,   *)
(* d-1, d+1, ... and take the first date on which Fajr and Isha both       *)
(* exist; one action per probe.  C09: the taken date is the closest good   *)
(* date, the earlier one on ties, whenever one exists within the year.     *)
(* LegacyBound re-enables the pre-fix loop bound (finding D3: the current  *)
(* date's day-of-year instead of the year's last day).                     *)
(***************************************************************************)
EXTENDS Integers, FiniteSets, TLC

CONSTANTS K,            \* validity is modelled for offsets -K..K (all dates further away are bad)
          Ordinals,     \* day-of-year values explored for the requested date
          LegacyBound

Abs(x) == IF x < 0 THEN -x ELSE x
YearLen == 365

VARIABLES valid,     \* offset -> Fajr and Isha both exist on that date
          ord,       \* day of year of the requested date
          i, side,   \* probe distance, "minus" | "plus"
          pc, found  \* "search" | "done"; taken offset or 1000 (none)
vars == <<valid, ord, i, side, pc, found>>

None == 1000
Bound == IF LegacyBound THEN ord ELSE YearLen
IsGood(o) == o \in -K..K /\ valid[o]

Init == /\ valid \in [-K..K -> BOOLEAN] /\ ord \in Ordinals
        /\ i = 0 /\ side = "minus" /\ pc = "search" /\ found = None

Probe == /\ pc = "search"
         /\ IF i > Bound \/ i > K + 1            \* beyond K nothing is good: the model stops probing
            THEN pc' = "done" /\ UNCHANGED <<i, side, found>>
            ELSE LET o == IF side = "minus" THEN -i ELSE i IN
                 IF IsGood(o) THEN found' = o /\ pc' = "done" /\ UNCHANGED <<i, side>>
                 ELSE /\ UNCHANGED <<found, pc>>
                      /\ IF side = "minus" THEN side' = "plus" /\ UNCHANGED i
                         ELSE side' = "minus" /\ i' = i + 1
         /\ UNCHANGED <<valid, ord>>
Next == Probe
Spec == Init /\ [][Next]_vars /\ WF_vars(Next)

-----------------------------------------------------------------------------
\* the property-level choice: smallest distance, earlier date on ties
Closest == IF \E o \in -K..K : valid[o]
           THEN CHOOSE o \in -K..K : /\ valid[o]
                                     /\ \A q \in -K..K : valid[q] => (Abs(o) < Abs(q) \/ (Abs(o) = Abs(q) /\ o <= q))
           ELSE None
FindsClosest == pc = "done" => found = Closest
Terminates == <>(pc = "done")
=============================================================================
