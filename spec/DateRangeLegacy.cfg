SPECIFICATION Spec
CONSTANTS
  MaxLen = 10
  MinNeg = 3
  MaxK = 4
  LegacyNumDays = TRUE
INVARIANTS NumDaysCorrect RangeCorrect NoRunaway
CHECK_DEADLOCK FALSE
