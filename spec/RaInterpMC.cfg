SPECIFICATION Spec
CONSTANTS
  Step = 1
  LegacyPrevZero = FALSE
INVARIANTS FirstDifference SecondDifference
CHECK_DEADLOCK FALSE
