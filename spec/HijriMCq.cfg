SPECIFICATION Spec
CONSTANTS
  YearsBefore = 12
  YearsAfter = 12
  LegacyYearLe = FALSE
  LegacyLeapAbs = FALSE
INVARIANTS Correct NoPanic Bounded
PROPERTY Terminates
CHECK_DEADLOCK FALSE
