SPECIFICATION Spec
CONSTANTS
  YLo = 1690
  YHi = 1710
  LegacyCentury = TRUE
INVARIANT MatchesDayCount
PROPERTY OneDayApart
CHECK_DEADLOCK FALSE
