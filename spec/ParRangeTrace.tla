--------------------------- MODULE ParRangeTrace ---------------------------
(***************************************************************************)
(* Trace validation for C15: every hooked execution of                     *)
(* prayer_times_dt_rng_block must be a behaviour of ParRange.  Events are  *)
(* totally ordered by the hook's ordering lock (the channel send and the   *)
(* main thread's drop(tx) happen while that lock is held, so their place   *)
(* in the order is their linearization point); recv_ok / recv_err are      *)
(* logged by the single consumer after recv() returned, which preserves    *)
(* dequeue order.  The only unlogged steps are the workers' Sender drops   *)
(* (closure exit); they commute with everything except the collector's     *)
(* recv() -> Err, so they are composed into that event (WExit* . RecvErr). *)
(* Several runs are concatenated, separated by "reset" events.             *)
(* Every invariant of ParRange is evaluated in every state of the trace.   *)
(***************************************************************************)
EXTENDS ParRange, Json, IOUtils

Rec == ndJsonDeserialize(IOEnv.TRACE)
Start == atoi(IOEnv.START)

VARIABLES l, s0     \* trace position; absolute day number of the range's first day
tvars == <<vars, l, s0>>
Ev == Rec[l]
Is(name) == l <= Len(Rec) /\ Ev.ev = name
Step == l' = l + 1 /\ s0' = s0
Rel(a) == a - s0 + 1
WorkerOf(a) == CHOOSE i \in 1..Len(blocks) : blocks[i][1] = Rel(a)
HasWorker(a) == \E i \in 1..Len(blocks) : blocks[i][1] = Rel(a)

TReset == /\ Is("reset")
          /\ ResetTo(Ev.n, Ev.p, Ev.t)
          /\ s0' = Ev.s0 /\ l' = l + 1

NoteRule(seq) == IF Sequential = seq THEN TRUE ELSE PrintT(<<"NOTE", "decision differs from the documented rule", l>>)
TDecideSeq == Is("decide_seq") /\ Ev.a = N /\ Ev.b = P /\ DecideTo("seq") /\ NoteRule(TRUE) /\ Step
TDecidePar == Is("decide_par") /\ Ev.a = N /\ Ev.b = P /\ DecideTo("spawn_coll") /\ NoteRule(FALSE) /\ Step
TSpawnColl == Is("spawn_coll") /\ SpawnColl /\ Step
TCollStart == Is("coll_start") /\ CollStart /\ Step
TPartition == Is("partition") /\ Ev.b = P /\ PartitionCall(Ev.a) /\ Step
\* (a worker may be given an empty block - C15 does not forbid it, and partition() returns the range itself,
\*  possibly empty, for a single part)
TSpawnWorker == /\ Is("spawn_worker") /\ Ev.b >= 0
                /\ SpawnWorker(<<Rel(Ev.a), Rel(Ev.a) + Ev.b - 1>>) /\ Step
TWStart == Is("w_start") /\ HasWorker(Ev.a) /\ WStart(WorkerOf(Ev.a)) /\ Step
\* the worker sends exactly its block
TWSend == /\ Is("w_send") /\ HasWorker(Ev.a)
          /\ LET i == WorkerOf(Ev.a) IN
                /\ Ev.b = blocks[i][2] - blocks[i][1] + 1
                /\ WSend(i)
          /\ Step
\* drop(tx) is logged after the spawn loop: compose SpawnDone . DropTx
TDropTx == /\ Is("drop_tx") /\ mpc = "spawning" /\ Len(blocks) = nblocks
           /\ senders' = IF NoDropTx THEN senders ELSE senders - 1
           /\ mpc' = "join"
           /\ UNCHANGED <<N, P, T, nblocks, blocks, wpc, chan, cpc, merged, recvd, result, panic>>
           /\ Step
\* FIFO: what is received is the head of the channel
TRecvOk == /\ Is("recv_ok") /\ chan # <<>>
           /\ LET i == Head(chan) IN
                 /\ Ev.b = blocks[i][2] - blocks[i][1] + 1
                 /\ Ev.b > 0 => blocks[i][1] = Rel(Ev.a)          \* an empty partial map has no first day
           /\ RecvOk /\ Step
\* WExit* . RecvErr
TRecvErr == /\ Is("recv_err") /\ cpc = "run" /\ chan = <<>>
            /\ \A i \in 1..Len(wpc) : wpc[i] \in {"sent", "gone"}
            /\ senders = Cardinality({i \in 1..Len(wpc) : wpc[i] = "sent"})
            /\ Ev.a = Cardinality(merged)
            /\ wpc' = [i \in 1..Len(wpc) |-> "gone"]
            /\ senders' = 0 /\ cpc' = "exit"
            /\ UNCHANGED <<N, P, T, mpc, nblocks, blocks, chan, merged, recvd, result, panic>>
            /\ Step
\* the public call returns: its map is the spec's result and equals the sequential API's map
LoggedKeys == IF Ev.n = 0 THEN {} ELSE Rel(Ev.first)..Rel(Ev.last)
TReturn == /\ Is("ret") /\ Ev.out = "ret"
           /\ (mpc = "seq" /\ SeqRun) \/ (mpc = "join" /\ Join)
           /\ Ev.contig /\ Ev.n = Cardinality(LoggedKeys) /\ result' = LoggedKeys
           /\ Ev.equal
           /\ Step

TraceInit == /\ l = Start /\ s0 = 0
             /\ InitWith(0, 1, 0)
TraceNext == \/ TReset \/ TDecideSeq \/ TDecidePar \/ TSpawnColl \/ TCollStart \/ TPartition
             \/ TSpawnWorker \/ TWStart \/ TWSend \/ TDropTx \/ TRecvOk \/ TRecvErr \/ TReturn
TraceSpec == TraceInit /\ [][TraceNext]_tvars

TraceAccepted ==
    LET d == TLCGet("stats").diameter IN
    /\ PrintT(<<"MATCHED", Start + d - 2, Len(Rec)>>)
    /\ Start + d - 2 = Len(Rec)
=============================================================================
