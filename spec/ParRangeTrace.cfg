SPECIFICATION TraceSpec
CONSTANTS
  MaxDays = 0
  MaxPll = 0
  MaxThr = 0
  NoDropTx = FALSE
INVARIANTS NoPanic MergedInRange ResultCorrect NoDuplicate SendersAccounted ExitIsFinal ParallelOnlyWhenAllowed
POSTCONDITION TraceAccepted
CHECK_DEADLOCK FALSE
