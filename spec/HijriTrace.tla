----------------------------- MODULE HijriTrace -----------------------------
(***************************************************************************)
(* Trace validation for C17 over the ENTIRE domain 0001-01-01..9999-12-31. *)
(* The harness converts every date (and prints it) and logs an event for   *)
(* every date whose result is not the plain successor of the previous      *)
(* date's result (same month and year, day + 1, weekday + 1), i.e. every   *)
(* month start and every irregularity or panic.  The compression is        *)
(* lossless: between two accepted events the run of plain successors is    *)
(* correct iff it stays inside the month of the first event, which the     *)
(* InsideMonth conjunct demands.                                           *)
(*                                                                         *)
(* Event: rd (absolute day), gy/gm/gd (civil date), y/m/d/bh (reported),   *)
(* wd (reported Hijri weekday 1..7), cwd (civil weekday, Sunday = 1),      *)
(* run (dates since the previous event), out "ret"|"panic"|"end",           *)
(* txt (the printed text names exactly the reported fields).               *)
(***************************************************************************)
EXTENDS HijriDefs, Calendar, Json, IOUtils, TLC, Sequences

Rec == ndJsonDeserialize(IOEnv.TRACE)
Start == atoi(IOEnv.START)

VARIABLES l,      \* position in the trace
          prev    \* the previous accepted event's [rd, y(astronomical), m, d], or rd = 0 after a (re)start
Ev == Rec[l]

Astro(e) == IF e.bh THEN 1 - e.y ELSE e.y    \* reported year -> astronomical year

InsideMonth(e) ==
    prev.rd = 0 \/ /\ e.rd = prev.rd + e.run
                   /\ prev.d + e.run - 1 <= MonthLen(prev.y, prev.m)

Day == /\ l <= Len(Rec) /\ Ev.ev = "hij" /\ Ev.out = "ret"
       /\ Ev.rd = RD(Ev.gy, Ev.gm, Ev.gd)                 \* the event is about the date it names
       /\ [y |-> Ev.y, m |-> Ev.m, d |-> Ev.d, bh |-> Ev.bh] = Tab(Ev.rd)
       /\ Ev.wd = WeekdaySun1(Ev.rd) /\ Ev.wd = Ev.cwd    \* Hijri weekday = civil weekday
       /\ Ev.txt
       /\ InsideMonth(Ev)
       /\ prev' = [rd |-> Ev.rd, y |-> Astro(Ev), m |-> Ev.m, d |-> Ev.d]
       /\ l' = l + 1

\* closing event: the last run of plain successors also stays inside its month
End == /\ l <= Len(Rec) /\ Ev.ev = "hij" /\ Ev.out = "end"
       /\ InsideMonth(Ev)
       /\ prev' = prev
       /\ l' = l + 1

\* a date converted out of order (random access): judged on its own, leaves the sweep state alone
Rand == /\ l <= Len(Rec) /\ Ev.ev = "hijr" /\ Ev.out = "ret"
        /\ Ev.rd = RD(Ev.gy, Ev.gm, Ev.gd)
        /\ [y |-> Ev.y, m |-> Ev.m, d |-> Ev.d, bh |-> Ev.bh] = Tab(Ev.rd)
        /\ Ev.wd = WeekdaySun1(Ev.rd) /\ Ev.wd = Ev.cwd
        /\ Ev.txt
        /\ prev' = prev
        /\ l' = l + 1

TraceInit == l = Start /\ prev = [rd |-> 0, y |-> 0, m |-> 0, d |-> 0]
TraceNext == Day \/ End \/ Rand
TraceSpec == TraceInit /\ [][TraceNext]_<<l, prev>>

TraceAccepted ==
    LET dd == TLCGet("stats").diameter IN
    /\ PrintT(<<"MATCHED", Start + dd - 2, Len(Rec)>>)
    /\ Start + dd - 2 = Len(Rec)
=============================================================================
