---------------------------- MODULE BoundedTrace ----------------------------
(***************************************************************************)
(* Trace validation for C18.  One event per construction attempt of the    *)
(* real code: type, route, the exact bits of the intended value (or a      *)
(* garbage / whitespace label for texts), the outcome, the bits read back. *)
(* TLC decides from the bits and the documented bounds whether the value   *)
(* may exist; the harness' class label is only cross-checked.              *)
(***************************************************************************)
EXTENDS BoundedDefs, Json, IOUtils, TLC

Rec == ndJsonDeserialize(IOEnv.TRACE)
Start == atoi(IOEnv.START)

VARIABLE l
Ev == Rec[l]
Val(e) == [neg |-> e.neg, mag |-> e.mag]
ReadBack(e) == [neg |-> e.rbneg, mag |-> e.rbmag]

\* the harness' class label agrees with TLC's own reading of the bits
ClassConsistent(e) ==
    LET x == Val(e) IN
    CASE e.cls = "nan"  -> IsNaN(x)
      [] e.cls = "pinf" -> ~IsFinite(x) /\ ~IsNaN(x) /\ x.neg = 0
      [] e.cls = "ninf" -> ~IsFinite(x) /\ ~IsNaN(x) /\ x.neg = 1
      [] e.cls \in {"below_far", "below_ulp"} -> IsFinite(x) /\ Less(x, Lo[e.ty])
      [] e.cls \in {"above_far", "above_ulp"} -> IsFinite(x) /\ Less(Hi[e.ty], x)
      [] e.cls = "lo" -> SameBits(x, Lo[e.ty])
      [] e.cls = "hi" -> SameBits(x, Hi[e.ty])
      [] e.cls = "zero" -> IsZero(x)
      [] e.cls = "inside" -> InRange(e.ty, x)
      [] OTHER -> TRUE

\* a numeric input: accepted iff finite and in range; an accepted value reads back bit-identical
Numeric ==
    /\ l <= Len(Rec) /\ Ev.ev = "bnd" /\ Ev.cls \notin {"garbage", "ws"}
    /\ HasRoute(Ev.ty, Ev.route)
    /\ ClassConsistent(Ev)
    /\ Ev.out \in {"accept", "reject"}
    /\ (Ev.out = "accept") <=> InRange(Ev.ty, Val(Ev))
    /\ Ev.out = "accept" => SameBits(ReadBack(Ev), Val(Ev))
    /\ Ev.pred \in {"any", Ev.out}              \* the model's cell predicted this outcome
    /\ l' = l + 1

\* malformed text / JSON is rejected with an error
Garbage ==
    /\ l <= Len(Rec) /\ Ev.ev = "bnd" /\ Ev.cls = "garbage"
    /\ Ev.out = "reject"
    /\ l' = l + 1

\* whitespace-padded numerals: rejected as malformed, or read as the number they contain
Whitespace ==
    /\ l <= Len(Rec) /\ Ev.ev = "bnd" /\ Ev.cls = "ws"
    /\ \/ Ev.out = "reject"
       \/ Ev.out = "accept" /\ InRange(Ev.ty, Val(Ev)) /\ SameBits(ReadBack(Ev), Val(Ev))
    /\ l' = l + 1

TraceInit == l = Start
TraceNext == Numeric \/ Garbage \/ Whitespace
TraceSpec == TraceInit /\ [][TraceNext]_l

TraceAccepted ==
    LET d == TLCGet("stats").diameter IN
    /\ PrintT(<<"MATCHED", Start + d - 2, Len(Rec)>>)
    /\ Start + d - 2 = Len(Rec)
=============================================================================
