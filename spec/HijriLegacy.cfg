SPECIFICATION Spec
CONSTANTS
  YearsBefore = 35
  YearsAfter = 2
  LegacyYearLe = TRUE
  LegacyLeapAbs = TRUE
INVARIANTS Correct
CHECK_DEADLOCK FALSE
