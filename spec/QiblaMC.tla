------------------------------- MODULE QiblaMC -------------------------------
(***************************************************************************)
(* Design-level check of Qibla.tla on a grid of sites: the specification's *)
(* own bearing satisfies its definition, lies in (-180, 180], is mirror    *)
(* symmetric about the Kaaba's meridian, is 0 or 180 on that meridian and  *)
(* its antimeridian, and its sign is the side of the meridian.             *)
(***************************************************************************)
EXTENDS Qibla, TLC
CONSTANT Step
VARIABLES lat, dlon, done
vars == <<lat, dlon, done>>
Init == /\ lat \in {-890000 + Step * i : i \in 0..(1780000 \div Step)}
        /\ dlon \in {Step * i : i \in 0..(Half \div Step)}      \* offset east of the Kaaba's meridian
        /\ done = FALSE
Next == ~done /\ done' = TRUE /\ UNCHANGED <<lat, dlon>>
Spec == Init /\ [][Next]_vars
QE == SpecBearing(lat, KLon + dlon)
QW == SpecBearing(lat, KLon - dlon)
Defined == ~Exempt(lat, KLon + dlon) => IsBearing(lat, KLon + dlon, QE) /\ IsBearing(lat, KLon - dlon, QW)
InRange == QE > -Half /\ QE <= Half /\ QW > -Half /\ QW <= Half
Mirror == (dlon > 0 /\ dlon < Half) => QE = 0 - QW
OnMeridian == dlon \in {0, Half} => QE \in {0, Half}
SignIsSide == (dlon > 0 /\ dlon < Half /\ ~Exempt(lat, KLon + dlon)) => QE > 0 /\ QW < 0
=============================================================================
