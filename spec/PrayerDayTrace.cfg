SPECIFICATION TraceSpec
CONSTANTS
  LegacyImsaak = FALSE
  LegacyImsaakFlag = FALSE
POSTCONDITION TraceAccepted
CHECK_DEADLOCK FALSE
