SPECIFICATION TraceSpec
CONSTANT LegacyImsaak = FALSE
POSTCONDITION TraceAccepted
CHECK_DEADLOCK FALSE
