SPECIFICATION TraceSpec
CONSTANTS
  LegacyImsaak = FALSE
  LegacyImsaakFlag = FALSE
  LegacyLateInt = FALSE
POSTCONDITION TraceAccepted
CHECK_DEADLOCK FALSE
