SPECIFICATION TraceSpec
CONSTANTS
  LegacyImsaak = FALSE
  LegacyImsaakFlag = FALSE
  LegacyLateInt = FALSE
  LegacyIntFlag = FALSE
POSTCONDITION TraceAccepted
CHECK_DEADLOCK FALSE
