SPECIFICATION Spec
CONSTANT LegacyWeatherJson = TRUE
INVARIANTS OnlyInRange
CHECK_DEADLOCK FALSE
