------------------------------ MODULE Rounding ------------------------------
(***************************************************************************)
(* C11 at design level: for every unrounded second (including negative and *)
(* >= 24 h intermediates produced by minute offsets), mode and prayer      *)
(* class, the implementation-shaped conversion equals the property-level   *)
(* function, moves the time by less than a minute, and carries correctly.  *)
(***************************************************************************)
EXTENDS RoundingDefs, TLC

CONSTANTS UNeg, UHi, UStep     \* explore u in -UNeg..UHi with stride UStep (1 = every second)
ULo == -UNeg

VARIABLES u, mode, cls, stage, out
vars == <<u, mode, cls, stage, out>>

Init == /\ u \in {ULo + UStep * i : i \in 0..((UHi - ULo) \div UStep)}
        /\ mode \in 0..3 /\ cls \in {"round", "trunc"}
        /\ stage = "in" /\ out = -1

Convert == /\ stage = "in" /\ stage' = "out"
           /\ out' = Impl(mode, cls, u)
           /\ UNCHANGED <<u, mode, cls>>
Next == Convert
Spec == Init /\ [][Next]_vars

CircDist(a, b) == LET d == (a - b) % DaySecs IN IF d > DaySecs \div 2 THEN DaySecs - d ELSE d

Done == stage = "out"
MatchesProperty == Done => out = Expected(mode, cls, u)
InDay == Done => out \in 0..(DaySecs - 1)
NoneIsIdentity == (Done /\ mode = 0) => out = Wrap(u)
WholeMinute == (Done /\ mode # 0) => out % 60 = 0
LessThanAMinute == Done => CircDist(out, Wrap(u)) < 60
\* never earlier than the truncated minute, never later than the next one
Direction == (Done /\ mode # 0) => \/ out = Wrap(u) - (Wrap(u) % 60)
                                   \/ out = (Wrap(u) - (Wrap(u) % 60) + 60) % DaySecs
NormalRule == (Done /\ mode = 1) => (out # Wrap(u) - (Wrap(u) % 60)) <=> Wrap(u) % 60 >= 30
ShurooqTruncates == (Done /\ mode \in {2, 3} /\ cls = "trunc") => out = Wrap(u) - (Wrap(u) % 60)
AggressiveRule == (Done /\ mode = 3 /\ cls = "round") => (out = Wrap(u)) <=> Wrap(u) % 60 = 0
=============================================================================
