SPECIFICATION Spec
CONSTANTS
  Step = 7
  LegacyPrevZero = TRUE
INVARIANTS FirstDifference SecondDifference
CHECK_DEADLOCK FALSE
