------------------------------ MODULE CliTrace ------------------------------
(***************************************************************************)
(* Trace validation for C19: every scenario of Cli.tla that was run        *)
(* against the real binary must end the way the specification's behaviour  *)
(* for that scenario ends (exit status, files written, terminal output),   *)
(* and an accepted run must report what the library computes.              *)
(* "rt" events: a parameter file written by one run and fed back with -i   *)
(* reproduces byte-identical output.                                       *)
(***************************************************************************)
EXTENDS Integers, Sequences, FiniteSets, Json, IOUtils, TLC

Rec == ndJsonDeserialize(IOEnv.TRACE)
Start == atoi(IOEnv.START)
VARIABLE l
Ev == Rec[l]
Is(name) == l <= Len(Rec) /\ Ev.ev = name
Step == l' = l + 1

\* the decision of Cli.tla (its Decision invariant ties the state machine to this predicate)
Accepts(s) == /\ s.lat = "ok" /\ s.lon = "ok" /\ s.gmt = "ok" /\ s.elev \in {"absent", "ok"} /\ s.dates # "bad"
              /\ s.input \in {"none", "good"}
ExpectedFiles(s) == (IF s.o THEN {"out"} ELSE {}) \cup (IF s.p /\ s.input = "none" THEN {"params"} ELSE {})
FilesOf(e) == {e.files[i] : i \in 1..Len(e.files)}
\* what each path must hold afterwards: exactly this run's data if the run writes it, else what was there before
ExpectedContent(s, f) == IF f \in ExpectedFiles(s) /\ Accepts(s) THEN "fresh" ELSE (IF s.pre THEN "old" ELSE "none")

\* the harness' class labels agree with the documented ranges (values are * 10^4)
InRangeV(v, lo, hi) == v >= lo /\ v <= hi
ClassOk(cls, v, lo, hi) == (cls = "ok" => InRangeV(v, lo, hi)) /\ (cls = "oor" => ~InRangeV(v, lo, hi))
LabelsConsistent(e) ==
    /\ ClassOk(e.sc.lat, e.v.lat, -900000, 900000)
    /\ ClassOk(e.sc.lon, e.v.lon, -1800000, 1800000)
    /\ ClassOk(e.sc.gmt, e.v.gmt, -120000, 120000)
    /\ ClassOk(e.sc.elev, e.v.elev, -4200000, 88480000)

Run ==
    /\ Is("cli") /\ LabelsConsistent(Ev)
    /\ Ev.pred = (IF Accepts(Ev.sc) THEN "done" ELSE "rejected")      \* the model's own ending for this scenario
    /\ IF Accepts(Ev.sc)
       THEN /\ Ev.exit = 0
            /\ Ev.out_state = ExpectedContent(Ev.sc, "out") /\ Ev.params_state = ExpectedContent(Ev.sc, "params")
            /\ Ev.printed = (~Ev.sc.o /\ Ev.ndays > 0)                 \* an empty range lists nothing
            /\ (Ev.sc.input = "none" /\ Ev.sc.dates = "reversed") => Ev.ndays = 0
            /\ Ev.eq_lib                                               \* the output is the library's result
       ELSE /\ Ev.exit # 0 /\ Ev.exit # 249                           \* rejected: non-zero exit (249 = the harness killed a hung process) ...
            /\ ~Ev.printed                                            \* ... before anything is written or printed
            /\ Ev.out_state = ExpectedContent(Ev.sc, "out") /\ Ev.params_state = ExpectedContent(Ev.sc, "params")
    /\ Step

RoundTrip == Is("rt") /\ Ev.exit1 = 0 /\ Ev.exit2 = 0 /\ Ev.same /\ Ev.same_listing /\ Step

\* without -s / -n the tool computes exactly one date: the machine's local "today" (the harness brackets the run)
Today == /\ Is("today") /\ Ev.exit = 0
         /\ Len(Ev.keys) = 1 /\ Ev.keys[1] \in {Ev.before, Ev.after}
         /\ Step

TraceInit == l = Start
TraceNext == Run \/ RoundTrip \/ Today
TraceSpec == TraceInit /\ [][TraceNext]_l
TraceAccepted ==
    LET d == TLCGet("stats").diameter IN
    /\ PrintT(<<"MATCHED", Start + d - 2, Len(Rec)>>)
    /\ Start + d - 2 = Len(Rec)
=============================================================================
