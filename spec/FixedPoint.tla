----------------------------- MODULE FixedPoint -----------------------------
(***************************************************************************)
(* 32-bit-safe fixed-point arithmetic and trigonometry for TLC.            *)
(*   angles: integers in U = 10^-4 degree (360 degrees = 3 600 000 U)      *)
(*   sines / cosines / unit-vector components: integers scaled by 10^6     *)
(* Every intermediate stays below 2^31.                                    *)
(***************************************************************************)
EXTENDS Integers, Sequences, SinTable

Full == 3600000
Half == 1800000
Quarter == 900000
One == 1000000

AbsI(x) == IF x < 0 THEN -x ELSE x
SignI(x) == IF x < 0 THEN -1 ELSE 1
\* division rounding toward zero (TLA+ \div floors)
DivT(a, b) == SignI(a) * (AbsI(a) \div b)
\* rounding to nearest
DivR(a, b) == SignI(a) * ((AbsI(a) + (b \div 2)) \div b)

Norm(a) == a % Full                      \* into [0, 360)
NormS(a) == LET r == a % Full IN IF r > Half THEN r - Full ELSE r     \* into (-180, 180]

\* a * b / 10^6 for |a| <= 2.1e6, |b| <= 10^6 (split multiply)
MulS(a, b) ==
    LET s == SignI(a) * SignI(b)
        aa == AbsI(a)  bb == AbsI(b)
        ah == aa \div 1000   al == aa % 1000
    IN s * (((ah * bb) + 500) \div 1000 + ((al * bb) + 500000) \div 1000000)

\* sine of an angle in [0, 90 degrees] by table + linear interpolation
SinQ(a) ==
    LET i == a \div 1000   f == a % 1000
        lo == SinTab[i + 1]   hi == SinTab[i + 2]
    IN lo + ((hi - lo) * f + 500) \div 1000

Sin(a) ==
    LET r == Norm(a) IN
    IF r <= Quarter THEN SinQ(r)
    ELSE IF r <= Half THEN SinQ(Half - r)
    ELSE IF r <= Half + Quarter THEN -SinQ(r - Half)
    ELSE -SinQ(Full - r)
Cos(a) == Sin(a + Quarter)

\* arcsine of s (scaled 10^6) in [-90, 90] degrees by bisection on the monotone SinQ
RECURSIVE AsinB(_, _, _, _)
AsinB(s, lo, hi, n) ==           \* invariant: SinQ(lo) <= s <= SinQ(hi)
    IF n = 0 \/ hi - lo <= 1 THEN (lo + hi) \div 2
    ELSE LET mid == (lo + hi) \div 2 IN
         IF SinQ(mid) <= s THEN AsinB(s, mid, hi, n - 1) ELSE AsinB(s, lo, mid, n - 1)
Asin(s) == LET c == IF AbsI(s) > One THEN One ELSE AbsI(s) IN SignI(s) * AsinB(c, 0, Quarter, 22)
Acos(c) == Quarter - Asin(c)

\* rate * k for a rate of (rh + rl / 10^4) U per unit, |k| <= 146 500, rh <= 9 999
Lin(rh, rl, k) == Norm(rh * k) + DivT(rl * k, 10000)

-----------------------------------------------------------------------------
(* self-checks evaluated by TLC when the module is loaded *)
ASSUME Len(SinTab) = 902 /\ SinTab[1] = 0 /\ SinTab[901] = One
ASSUME \A i \in 1..900 : SinTab[i] <= SinTab[i + 1]
\* sin^2 + cos^2 = 1 within 3e-6 on every table entry
ASSUME \A i \in 0..900 : AbsI(MulS(SinTab[i + 1], SinTab[i + 1]) + MulS(SinTab[901 - i], SinTab[901 - i]) - One) <= 3
\* addition formula on a grid: sin(a + b) = sin a cos b + cos a sin b
ASSUME \A a \in {0, 123456, 777777, 1234567, 2000001, 3333333} : \A b \in {1, 450000, 899999, 1500000} :
          AbsI(Sin(a + b) - (MulS(Sin(a), Cos(b)) + MulS(Cos(a), Sin(b)))) <= 4
ASSUME Sin(300000) = 500000 /\ Cos(600000) = 500000 /\ Sin(-300000) = -500000
ASSUME AbsI(Asin(500000) - 300000) <= 2 /\ AbsI(Asin(-707107) + 450000) <= 2 /\ AbsI(Asin(One) - Quarter) <= 2
ASSUME MulS(1914602, -999999) = -1914600 /\ MulS(-500000, -500000) = 250000
=============================================================================
