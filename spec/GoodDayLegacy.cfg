SPECIFICATION Spec
CONSTANTS
  K = 6
  Ordinals = {1, 3, 200, 365}
  LegacyBound = TRUE
INVARIANT FindsClosest
CHECK_DEADLOCK FALSE
