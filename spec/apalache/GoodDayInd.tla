----------------------------- MODULE GoodDayInd -----------------------------
(***************************************************************************)
(* C09's design-level lemma over the WHOLE search window, for Apalache:    *)
(* for every pattern of good / bad dates at offsets -K..K with K = 40     *)
(* (the code searches up to a year; the argument is uniform in K, and Apalache times out at K = 366), the probe loop          *)
(*   d-0, d+0, d-1, d+1, ...                                               *)
(* takes the closest good date, the earlier one on ties, or none if there  *)
(* is none.  IndInv is inductive (one action per probe, as in GoodDay.tla, *)
(* which TLC checks exhaustively for K = 6).                               *)
(***************************************************************************)
EXTENDS Integers

K == 40
None == 1000

VARIABLES
    \* @type: Int -> Bool;
    valid,
    \* @type: Int;
    i,
    \* @type: Str;
    side,
    \* @type: Str;
    pc,
    \* @type: Int;
    found

Abs(x) == IF x < 0 THEN -x ELSE x
Off == (0 - K)..K

Init == /\ valid \in [Off -> BOOLEAN]
        /\ i = 0 /\ side = "minus" /\ pc = "search" /\ found = None

Probe == /\ pc = "search"
         /\ IF i > K
            THEN pc' = "done" /\ UNCHANGED <<i, side, found>>
            ELSE LET o == IF side = "minus" THEN 0 - i ELSE i IN
                 IF valid[o] THEN found' = o /\ pc' = "done" /\ UNCHANGED <<i, side>>
                 ELSE /\ UNCHANGED <<found, pc>>
                      /\ IF side = "minus" THEN side' = "plus" /\ UNCHANGED i
                         ELSE side' = "minus" /\ i' = i + 1
         /\ UNCHANGED valid
Stutter == pc = "done" /\ UNCHANGED <<valid, i, side, pc, found>>
Next == Probe \/ Stutter

Closest(f) == /\ f \in Off /\ valid[f]
              /\ \A q \in Off : valid[q] => (Abs(f) < Abs(q) \/ (Abs(f) = Abs(q) /\ f <= q))

IndInv ==
    /\ i >= 0 /\ i <= K + 1 /\ side \in {"minus", "plus"} /\ pc \in {"search", "done"}
    /\ pc = "search" => found = None
    /\ \A o \in Off : Abs(o) < i => ~valid[o]            \* everything closer has been probed and is bad
    /\ (side = "plus" /\ i <= K) => ~valid[0 - i]        \* the earlier date at this distance too
    /\ (pc = "done" /\ found # None) => Closest(found)
    /\ (pc = "done" /\ found = None) => \A o \in Off : ~valid[o]
IndInit == /\ valid \in [Off -> BOOLEAN] /\ i \in Int /\ side \in {"minus", "plus"}
           /\ pc \in {"search", "done"} /\ found \in Int /\ IndInv

Lemma == pc = "done" => (IF \E o \in Off : valid[o] THEN Closest(found) ELSE found = None)
=============================================================================
