---------------------------- MODULE PartitionInd ----------------------------
(***************************************************************************)
(* Unbounded version of the exact-cover lemma behind C14, for Apalache:    *)
(* the loop of DateRange::partition(count >= 2) over ANY length and count. *)
(* The block list is abstracted to what the lemma needs: how many blocks   *)
(* were pushed (cnt) and where the next one starts (cur); every pushed     *)
(* block is [start, min(start + bs - 1, e)], so the blocks pushed so far   *)
(* cover exactly s..cur-1 (clamped at e), contiguously and non-empty.      *)
(* IndInv is inductive; at termination it gives cnt <= k and cover = s..e. *)
(***************************************************************************)
EXTENDS Integers

VARIABLES
    \* @type: Int;
    s,
    \* @type: Int;
    e,
    \* @type: Int;
    k,
    \* @type: Int;
    bs,
    \* @type: Int;
    cur,
    \* @type: Int;
    cnt,
    \* @type: Str;
    pc

days == e - s + 1

Init ==
    /\ s = 0 /\ e \in Int /\ e >= s /\ k \in Int /\ k >= 2
    /\ bs \in Int /\ bs >= 1
    /\ (bs - 1) * k < days /\ days <= bs * k          \* bs = ceil(days / k)
    /\ cur = s /\ cnt = 0 /\ pc = "loop"

Loop ==
    /\ pc = "loop"
    /\ IF cur <= e
       THEN /\ cnt' = cnt + 1 /\ cur' = cur + bs /\ pc' = "loop"
       ELSE /\ pc' = "done" /\ UNCHANGED <<cnt, cur>>
    /\ UNCHANGED <<s, e, k, bs>>

Stutter == pc = "done" /\ UNCHANGED <<s, e, k, bs, cur, cnt, pc>>
Next == Loop \/ Stutter

\* inductive invariant
IndInv ==
    /\ s = 0 /\ e >= s /\ k >= 2 /\ bs >= 1
    /\ (bs - 1) * k < days /\ days <= bs * k
    /\ cnt >= 0 /\ cur = s + cnt * bs
    /\ pc \in {"loop", "done"}
    /\ cnt >= 1 => (cnt - 1) * bs < days             \* the last pushed block started inside the range: non-empty
    /\ pc = "done" => cur > e

\* IndInv as an initial predicate (Apalache needs every variable assigned first)
IndInit == /\ s = 0 /\ e \in Int /\ k \in Int /\ bs \in Int /\ cnt \in Int /\ cur \in Int
           /\ pc \in {"loop", "done"}
           /\ IndInv

\* what the lemma claims at termination
AtMostK == pc = "done" => cnt <= k
CoversAll == pc = "done" => cnt * bs >= days         \* union of the blocks reaches e (clamped), from s, contiguously
NonEmptyBlocks == cnt >= 1 => (cnt - 1) * bs < days
Lemma == AtMostK /\ CoversAll /\ NonEmptyBlocks
=============================================================================
