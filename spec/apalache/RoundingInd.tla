----------------------------- MODULE RoundingInd -----------------------------
(***************************************************************************)
(* Unbounded version of C11's design-level lemma, for Apalache: for EVERY  *)
(* integer number of unrounded seconds u0 (any minute offset, however      *)
(* large), the implementation-shaped conversion of hour_to_time - the      *)
(* `while hour < 0 { hour += 24 }` loop, the h:m:s split, round_secs with  *)
(* its carry, and the final `rem(24)` - yields RoundClock applied to the   *)
(* clock time u0 mod 86400.  The loop is a state machine (one step per     *)
(* iteration); IndInv is inductive.                                        *)
(***************************************************************************)
EXTENDS Integers

VARIABLES
    \* @type: Int;
    u0,
    \* @type: Int;
    w,
    \* @type: Int;
    mode,
    \* @type: Bool;
    rounds,
    \* @type: Int;
    out,
    \* @type: Str;
    pc

Day == 86400

Threshold == IF mode = 0 THEN 60
             ELSE IF mode = 1 THEN 30
             ELSE IF mode = 2 THEN (IF rounds THEN 30 ELSE 60)
             ELSE (IF rounds THEN 1 ELSE 60)

\* property level: the fixed function of the unrounded clock time c in 0..86399
RoundClock(c) == IF mode = 0 THEN c
                 ELSE LET sec == c % 60 IN
                      IF sec >= Threshold THEN (c - sec + 60) % Day ELSE c - sec

Init == /\ u0 \in Int /\ w = u0 /\ mode \in 0..3 /\ rounds \in BOOLEAN
        /\ (mode = 1 => rounds)                      \* normal rounding rounds every prayer
        /\ out = 0 /\ pc = "wrap"

Wrap == /\ pc = "wrap"
        /\ IF w < 0 THEN w' = w + Day /\ pc' = "wrap" /\ UNCHANGED out
           ELSE LET sec == w % 60
                    cap == IF mode = 3 THEN 1 ELSE 30
                    w2 == IF mode = 0 THEN w
                          ELSE IF rounds THEN (IF sec >= cap THEN w - sec + 60 ELSE w - sec)
                          ELSE w - sec
                IN out' = w2 % Day /\ pc' = "done" /\ UNCHANGED w
        /\ UNCHANGED <<u0, mode, rounds>>
Stutter == pc = "done" /\ UNCHANGED <<u0, w, mode, rounds, out, pc>>
Next == Wrap \/ Stutter

IndInv == /\ mode \in 0..3 /\ (mode = 1 => rounds)
          /\ pc \in {"wrap", "done"}
          /\ w % Day = u0 % Day
          /\ w < 0 => u0 < 0
          /\ pc = "done" => out = RoundClock(u0 % Day)
IndInit == /\ u0 \in Int /\ w \in Int /\ mode \in Int /\ rounds \in BOOLEAN /\ out \in Int
           /\ pc \in {"wrap", "done"} /\ IndInv

Lemma == pc = "done" => /\ out = RoundClock(u0 % Day)
                        /\ out >= 0 /\ out < Day
                        /\ mode # 0 => out % 60 = 0
=============================================================================
