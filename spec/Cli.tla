--------------------------------- MODULE Cli ---------------------------------
(***************************************************************************)
(* The command-line tool (src/main.rs, src/cli.rs) as a sequential process *)
(*   Parse -> Reject                                                       *)
(*         -> ReadInput (with -i) | BuildConfig (from the arguments)       *)
(*         -> WriteParams (with -p and no -i) -> Compute -> Output         *)
(* over abstract scenarios: each numeric argument is in range / just out   *)
(* of range / malformed (elevation may also be absent), the dates are      *)
(* well-formed (possibly reversed) or malformed, an input file is absent / *)
(* good / missing / corrupt / holding an out-of-range value.               *)
(* The library itself is the uninterpreted function Lib (decided by the    *)
(* other 18 properties).  C19: a rejected command line exits non-zero      *)
(* before anything is computed or written; an accepted one writes exactly  *)
(* the files asked for and reports Lib of its configuration.               *)
(***************************************************************************)
EXTENDS Integers, TLC

NumCls == {"ok", "oor", "bad"}
ElevCls == {"absent", "ok", "oor", "bad"}
DateCls == {"ok", "reversed", "bad"}
InputCls == {"none", "good", "missing", "corrupt", "oorfile"}

CONSTANT LegacyNoTruncate   \* TRUE = files are opened without truncation (a seeded defect; vacuity self-test)

VARIABLES sc,       \* the scenario: [lat, lon, gmt, elev, dates, input, o, p, pre]; pre = the -o / -p paths already
                    \* hold an older (longer) file from a previous run
          content,  \* what the two paths hold: "none" | "old" | "fresh" (exactly this run's data) | "mixed"
          stage,    \* "parse" | "config" | "params" | "compute" | "output" | "done" | "rejected"
          files,    \* subset of {"out", "params"} written so far
          computed, \* the library was called
          printed,  \* a result was written to the terminal
          exit      \* process exit status: 0 | 1 (non-zero) | -1 (still running)
vars == <<sc, content, stage, files, computed, printed, exit>>

Init ==
    /\ sc \in [lat : NumCls, lon : NumCls, gmt : NumCls, elev : ElevCls, dates : DateCls,
               input : InputCls, o : BOOLEAN, p : BOOLEAN, pre : BOOLEAN]
    /\ content = [f \in {"out", "params"} |-> IF sc.pre THEN "old" ELSE "none"]
    /\ stage = "parse" /\ files = {} /\ computed = FALSE /\ printed = FALSE /\ exit = -1

\* File::create truncates: whatever was there is replaced by exactly what this run writes
Written(old) == IF LegacyNoTruncate /\ old = "old" THEN "mixed" ELSE "fresh"

ArgsValid == sc.lat = "ok" /\ sc.lon = "ok" /\ sc.gmt = "ok" /\ sc.elev \in {"absent", "ok"} /\ sc.dates # "bad"

\* clap: every supplied value must parse and be in range, also when -i makes it unnecessary
Parse ==
    /\ stage = "parse"
    /\ IF ArgsValid THEN stage' = "config" /\ UNCHANGED exit
       ELSE stage' = "rejected" /\ exit' = 1
    /\ UNCHANGED <<sc, content, files, computed, printed>>

\* with -i the configuration comes from the file (unreadable / undecodable / out-of-range content aborts)
Config ==
    /\ stage = "config"
    /\ IF sc.input \in {"missing", "corrupt", "oorfile"} THEN stage' = "rejected" /\ exit' = 1
       ELSE stage' = "params" /\ UNCHANGED exit
    /\ UNCHANGED <<sc, content, files, computed, printed>>

Params ==
    /\ stage = "params" /\ stage' = "compute"
    /\ files' = IF sc.p /\ sc.input = "none" THEN files \cup {"params"} ELSE files
    /\ content' = IF sc.p /\ sc.input = "none" THEN [content EXCEPT !["params"] = Written(@)] ELSE content
    /\ UNCHANGED <<sc, computed, printed, exit>>

Compute ==
    /\ stage = "compute" /\ stage' = "output" /\ computed' = TRUE
    /\ UNCHANGED <<sc, content, files, printed, exit>>

Output ==
    /\ stage = "output" /\ stage' = "done" /\ exit' = 0
    /\ IF sc.o THEN files' = files \cup {"out"} /\ content' = [content EXCEPT !["out"] = Written(@)] /\ UNCHANGED printed
       ELSE printed' = TRUE /\ UNCHANGED <<files, content>>
    /\ UNCHANGED <<sc, computed>>

Next == Parse \/ Config \/ Params \/ Compute \/ Output
Spec == Init /\ [][Next]_vars /\ WF_vars(Next)

-----------------------------------------------------------------------------
Accepts(s) == /\ s.lat = "ok" /\ s.lon = "ok" /\ s.gmt = "ok" /\ s.elev \in {"absent", "ok"} /\ s.dates # "bad"
              /\ s.input \in {"none", "good"}
ExpectedFiles(s) == (IF s.o THEN {"out"} ELSE {}) \cup (IF s.p /\ s.input = "none" THEN {"params"} ELSE {})

Before(f) == IF sc.pre THEN "old" ELSE "none"
ExpectedContent(s, f) == IF f \in ExpectedFiles(s) THEN "fresh" ELSE (IF s.pre THEN "old" ELSE "none")
RejectClean == stage = "rejected" => /\ exit # 0 /\ files = {} /\ ~computed /\ ~printed
                                     /\ \A f \in {"out", "params"} : content[f] = Before(f)
NothingBeforeParse == stage \in {"parse", "config"} => files = {} /\ ~computed /\ ~printed
AcceptComplete == stage = "done" => /\ exit = 0 /\ computed /\ files = ExpectedFiles(sc)
                                    /\ printed = ~sc.o
                                    /\ \A f \in {"out", "params"} : content[f] = ExpectedContent(sc, f)
Decision == (stage = "done" => Accepts(sc)) /\ (stage = "rejected" => ~Accepts(sc))
Terminates == <>(stage \in {"done", "rejected"})
Emit == stage \in {"done", "rejected"} =>
            PrintT(ToString(<<"SCEN", sc.lat, sc.lon, sc.gmt, sc.elev, sc.dates, sc.input, sc.o, sc.p, stage, sc.pre>>))
=============================================================================
