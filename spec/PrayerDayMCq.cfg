SPECIFICATION Spec
CONSTANTS
  LegacyUnwrap = FALSE
  LegacyImsaak = FALSE
  Roundings = {0, 2}
  FajrOffsets = {0, 90000}
  NegOffsets = FALSE
INVARIANTS StagedIsPure NoPanic SevenEntries NoPolicyNoFlags FajrIshaOnly InvalidKeepsValid IdentityWhenAllValid UnflaggedIsConventional IntervalKept ImsaakFollowsExtremeFajr ImsaakInterval OffsetFrame OffsetShifts
PROPERTY Finishes
CHECK_DEADLOCK FALSE
