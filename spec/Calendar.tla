------------------------------ MODULE Calendar ------------------------------
(***************************************************************************)
(* Proleptic Gregorian calendar in integer arithmetic.                     *)
(*   RD(y, m, d)  - "rata die": day 1 is 0001-01-01 (a Monday)             *)
(*   DN(y, m, d)  - days since 2000-01-01 (the unit used in trace events)  *)
(* Used to bind the civil date logged in an event to the day number the    *)
(* specification reasons about, and as the time base of Sun.tla.           *)
(***************************************************************************)
EXTENDS Integers, Sequences

IsLeapYear(y) == (y % 4 = 0 /\ y % 100 # 0) \/ y % 400 = 0

CumDays == <<0, 31, 59, 90, 120, 151, 181, 212, 243, 273, 304, 334>>
DaysBeforeMonth(y, m) == CumDays[m] + (IF m > 2 /\ IsLeapYear(y) THEN 1 ELSE 0)
DaysInMonth(y, m) ==
    IF m = 2 THEN (IF IsLeapYear(y) THEN 29 ELSE 28)
    ELSE IF m \in {4, 6, 9, 11} THEN 30 ELSE 31
DaysInYear(y) == IF IsLeapYear(y) THEN 366 ELSE 365

ValidDate(y, m, d) == m \in 1..12 /\ d \in 1..DaysInMonth(y, m)

RD(y, m, d) == 365 * (y - 1) + ((y - 1) \div 4) - ((y - 1) \div 100) + ((y - 1) \div 400)
               + DaysBeforeMonth(y, m) + d

RD2000 == 730120
DN(y, m, d) == RD(y, m, d) - RD2000

Ordinal(y, m, d) == DaysBeforeMonth(y, m) + d

\* weekday with Sunday = 1 .. Saturday = 7 (the numbering of HijriDay)
WeekdaySun1(rd) == (rd % 7) + 1

ASSUME RD(2000, 1, 1) = RD2000
ASSUME RD(1, 1, 1) = 1
ASSUME RD(622, 7, 19) = 227015
ASSUME WeekdaySun1(RD(2026, 10, 2)) = 6   \* a Friday
=============================================================================
