SPECIFICATION Spec
CONSTANTS
  K = 6
  Ordinals = {1, 3, 200, 365}
  LegacyBound = FALSE
INVARIANT FindsClosest
PROPERTY Terminates
CHECK_DEADLOCK FALSE
