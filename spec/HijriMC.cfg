SPECIFICATION Spec
CONSTANTS
  YearsBefore = 62
  YearsAfter = 62
  LegacyYearLe = FALSE
  LegacyLeapAbs = FALSE
INVARIANTS Correct NoPanic Bounded
PROPERTY Terminates
CHECK_DEADLOCK FALSE
