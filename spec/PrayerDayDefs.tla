--------------------------- MODULE PrayerDayDefs ---------------------------
(***************************************************************************)
(* The day pipeline of the library downstream of the astronomical hours:   *)
(*   conventional hours -> extreme-latitude policy -> interval rewrite     *)
(*   -> Imsaak re-runs -> offset / wrap / rounding -> clock times          *)
(* (src/prayer_times/mod.rs, ext_lat.rs, hours.rs::hour_to_time) in whole  *)
(* seconds.  Pure operators; PrayerDay.tla steps through them as a state   *)
(* machine, PrayerDayTrace.tla applies them to recorded calls.             *)
(*                                                                         *)
(* Prayers: 1 Imsaak 2 Fajr 3 Shurooq 4 Dhuhr 5 Asr 6 Maghrib 7 Isha.      *)
(* A cell is [ok, v, x]: valid?, seconds from civil midnight (unwrapped,   *)
(* may be < 0 or >= 86400), extreme flag.                                  *)
(*                                                                         *)
(* ENVIRONMENT (what the astronomy delivers; bound from `conv` events in   *)
(* traces, chosen nondeterministically in model checking):                 *)
(*   env.here[var], env.nl[var], env.good[var]: tables 2..7 -> [ok, v] of  *)
(*   conventional hours at the site, at the substitute latitude, and on    *)
(*   the nearest good day ([found, tab]); var = "base" for the configured     *)
(*   Fajr angle, "im" for Fajr angle + Imsaak angle (the Imsaak pass).     *)
(***************************************************************************)
EXTENDS RoundingDefs, Sequences, FiniteSets

CONSTANTS LegacyImsaak,     \* TRUE = pre-fix get_imsaak (finding D7): only the Imsaak-adjusted run's flag is looked at
          LegacyImsaakFlag, \* TRUE = pre-fix get_imsaak (finding D8): the interval fallback does not flag Imsaak extreme
          LegacyLateInt,    \* TRUE = pre-fix adj_for_ext_lat (finding D9): intervals are applied only after the policy, so
                            \* the placeholder angle-based hour of an interval-defined Fajr / Isha takes part in the validity test
          LegacyIntFlag     \* TRUE = pre-fix adj_for_int (finding D10): the rewritten Fajr / Isha takes the extreme flag of the
                            \* entry it overwrites only, not that of the Shurooq / Maghrib it is derived from

Imsaak == 1  Fajr == 2  Shurooq == 3  Dhuhr == 4  Asr == 5  Maghrib == 6  Isha == 7
P6 == 2..7
P7 == 1..7

Inv == [ok |-> FALSE, v |-> 0, x |-> FALSE]
Cell(v, x) == [ok |-> TRUE, v |-> v, x |-> x]
Flag(c) == IF c.ok THEN [c EXCEPT !.x = TRUE] ELSE Inv
FromEnv(e, x) == IF e.ok THEN Cell(e.v, x) ELSE Inv

DummyTab == [p \in P6 |-> [ok |-> FALSE, v |-> 0]]
NoGood == [found |-> FALSE, tab |-> DummyTab]
Good(tab) == [found |-> TRUE, tab |-> tab]

\* policies (the spec's `pol`, the harness' policy index)
PNone == 0          AngleBased == 1
NLAllAlways == 2    NLFIAlways == 3      NLFIInvalid == 4
NGAllAlways == 5    NGFIInvalid == 6
SevNightAlways == 7 SevNightInvalid == 8 SevDayAlways == 9  SevDayInvalid == 10
HalfAlways == 11    HalfInvalid == 12
MinAlways == 13     MinInvalid == 14
Policies == 0..14
AlwaysPolicies == {2, 3, 5, 7, 9, 11, 13}
InvalidPolicies == {4, 6, 8, 10, 12, 14}
FajrIshaOnlyPolicies == Policies \ {PNone, NLAllAlways, NGAllAlways}
IntervalConsumers == {HalfAlways, HalfInvalid, MinInvalid}     \* adj_for_int is skipped for these

DefImsaak == 90        \* Params::DEF_IMSAAK_ANGLE = 1.5, used as minutes = 90 s

\* Parameters: pol; fa, ia: Fajr / Isha angle in 0.01 degree; fi, ii, imi: intervals in seconds;
\* off: 7 minute-offsets in seconds; rnd: rounding mode; var: which Fajr-angle variant is in force
-----------------------------------------------------------------------------
(* stage 1: get_hours *)
GetHours(env, var) == [p \in P6 |-> FromEnv(env.here[var][p], FALSE)]

(* stage 2: adj_for_ext_lat's policy writers *)
HasInv(h) == \E p \in P6 : ~h[p].ok
CanAdj(h, pol) == pol # PNone /\ (HasInv(h) \/ pol \in AlwaysPolicies)

\* night = 24 h - maghrib + shurooq; the angle is a portion of it: angle/60 * night
AngleBasedW(h, P) ==
    IF h[Shurooq].ok /\ h[Maghrib].ok
    THEN LET night == DaySecs - h[Maghrib].v + h[Shurooq].v
             fang == IF P.var = "im" THEN P.fa + P.ima ELSE P.fa
         IN [h EXCEPT ![Fajr] = Cell(h[Shurooq].v - ((fang * night) \div 6000), TRUE),
                      ![Isha] = Cell(h[Maghrib].v + ((P.ia * night) \div 6000), TRUE)]
    ELSE h

NearLatW(h, P, env) ==
    LET a == env.nl[P.var]
        keep == P.pol = NLFIInvalid
        h1 == [h EXCEPT ![Fajr] = IF a[Fajr].ok /\ (~keep \/ ~h[Fajr].ok) THEN Cell(a[Fajr].v, TRUE) ELSE @,
                        ![Isha] = IF a[Isha].ok /\ (~keep \/ ~h[Isha].ok) THEN Cell(a[Isha].v, TRUE) ELSE @]
    IN IF P.pol = NLAllAlways
       THEN [h1 EXCEPT ![Shurooq] = FromEnv(a[Shurooq], TRUE),
                       ![Dhuhr] = Flag(@),
                       ![Asr] = FromEnv(a[Asr], TRUE),
                       ![Maghrib] = FromEnv(a[Maghrib], TRUE)]
       ELSE h1

NearGoodW(h, P, env) ==
    LET g == env.good[P.var] IN
    IF ~g.found THEN h
    ELSE IF P.pol = NGAllAlways THEN [p \in P6 |-> FromEnv(g.tab[p], TRUE)]
    ELSE [h EXCEPT ![Fajr] = IF ~@.ok THEN FromEnv(g.tab[Fajr], TRUE) ELSE @,
                   ![Isha] = IF ~@.ok THEN FromEnv(g.tab[Isha], TRUE) ELSE @]

SevHalfW(h, P) ==
    IF h[Shurooq].ok /\ h[Maghrib].ok
    THEN LET sh == h[Shurooq].v
             mg == h[Maghrib].v
             portion == CASE P.pol \in {SevNightAlways, SevNightInvalid} -> (DaySecs - (mg - sh)) \div 7
                          [] P.pol \in {SevDayAlways, SevDayInvalid} -> (mg - sh) \div 7
                          [] OTHER -> (DaySecs - mg - sh) \div 2
             half == P.pol \in {HalfAlways, HalfInvalid}
             newF == IF half THEN Cell(portion - P.fi, TRUE) ELSE Cell(sh - portion, TRUE)
             newI == IF half THEN Cell(portion + P.ii, TRUE) ELSE Cell(mg + portion, TRUE)
             always == P.pol \in AlwaysPolicies
         IN [h EXCEPT ![Fajr] = IF always \/ ~@.ok THEN newF ELSE @,
                      ![Isha] = IF always \/ ~@.ok THEN newI ELSE @]
    ELSE h

MinAlwaysW(h) == [h EXCEPT ![Fajr] = Flag(h[Shurooq]), ![Isha] = Flag(h[Maghrib])]

MinInvalidW(h, P) ==
    [h EXCEPT ![Fajr] = IF ~@.ok THEN (IF h[Shurooq].ok THEN Cell(h[Shurooq].v - P.fi, TRUE) ELSE Inv) ELSE @,
              ![Isha] = IF ~@.ok THEN (IF h[Maghrib].ok THEN Cell(h[Maghrib].v + P.ii, TRUE) ELSE Inv) ELSE @]

PolicyW(h, P, env) ==
    IF ~CanAdj(h, P.pol) THEN h
    ELSE CASE P.pol = AngleBased -> AngleBasedW(h, P)
           [] P.pol \in {NLAllAlways, NLFIAlways, NLFIInvalid} -> NearLatW(h, P, env)
           [] P.pol \in {NGAllAlways, NGFIInvalid} -> NearGoodW(h, P, env)
           [] P.pol \in 7..12 -> SevHalfW(h, P)
           [] P.pol = MinAlways -> MinAlwaysW(h)
           [] P.pol = MinInvalid -> MinInvalidW(h, P)
           [] OTHER -> h

(* stage 3: adj_for_int: a Fajr / Isha defined by an interval keeps that definition *)
\* reading the extreme flag of an invalid Fajr / Isha was an unwrap() panic before the repair (D2)
IntPanics(h, P, legacyUnwrap) ==
    /\ legacyUnwrap /\ P.pol \notin IntervalConsumers
    /\ (P.fi # 0 /\ ~h[Fajr].ok) \/ (P.ii # 0 /\ ~h[Isha].ok)

AdjForInt(h, P) ==
    IF P.pol \in IntervalConsumers THEN h
    ELSE LET h1 == IF P.fi # 0
                   THEN [h EXCEPT ![Fajr] = IF h[Shurooq].ok
                                            THEN Cell(h[Shurooq].v - P.fi,
                                                      (h[Fajr].ok /\ h[Fajr].x) \/ (~LegacyIntFlag /\ h[Shurooq].x))
                                            ELSE Inv]
                   ELSE h
         IN IF P.ii # 0
            THEN [h1 EXCEPT ![Isha] = IF h1[Maghrib].ok
                                      THEN Cell(h1[Maghrib].v + P.ii,
                                                (h1[Isha].ok /\ h1[Isha].x) \/ (~LegacyIntFlag /\ h1[Maghrib].x))
                                      ELSE Inv]
            ELSE h1

\* since the repair of D9 adj_for_ext_lat applies the intervals twice: before the validity test (an interval-defined
\* Fajr / Isha exists whenever its Shurooq / Maghrib does) and, as before, after the policy
PreInt(h, P) == IF LegacyLateInt THEN h ELSE AdjForInt(h, P)

\* get_hours_adj_ext
Hours(P, env) == AdjForInt(PolicyW(PreInt(GetHours(env, P.var), P), P, env), P)
HoursPanics(P, env, legacyUnwrap) ==
    \/ ~LegacyLateInt /\ IntPanics(GetHours(env, P.var), P, legacyUnwrap)
    \/ IntPanics(PolicyW(PreInt(GetHours(env, P.var), P), P, env), P, legacyUnwrap)

(* stage 4: to_prayer_time *)
ToTime(P, key, c) ==
    IF c.ok THEN [ok |-> TRUE, t |-> Expected(P.rnd, ClassOf(key), c.v + P.off[key]), x |-> c.x]
    ELSE [ok |-> FALSE, t |-> 0, x |-> FALSE]

(* stage 5: get_imsaak *)
ImsaakP1(P) ==
    IF P.fi # 0 THEN [P EXCEPT !.fi = @ + (IF P.imi = 0 THEN DefImsaak ELSE P.imi)]
    ELSE IF P.imi # 0 THEN [P EXCEPT !.off[Fajr] = @ - P.imi]
    ELSE [P EXCEPT !.var = "im"]
ImsaakP2(P) == [P EXCEPT !.off[Fajr] = @ - (IF P.imi = 0 THEN DefImsaak ELSE P.imi)]

\* Imsaak is "an interval before Fajr" when the Imsaak-adjusted Fajr is extreme, or (since the
\* repair of D7) when the Fajr of the requested parameters is
ImsaakNeedsPass2(P, env) ==
    LET f == Hours(ImsaakP1(P), env)[Fajr]
        m == Hours(P, env)[Fajr]
    IN (f.ok /\ f.x) \/ (~LegacyImsaak /\ m.ok /\ m.x)
ImsaakParams(P, env) == IF ImsaakNeedsPass2(P, env) THEN ImsaakP2(P) ELSE ImsaakP1(P)
\* an Imsaak obtained by the interval fallback is itself extreme (since the repair of D8)
ImsaakTime(P, env) ==
    LET Q == ImsaakParams(P, env)
        t == ToTime(Q, Fajr, Hours(Q, env)[Fajr])
    IN IF t.ok /\ ImsaakNeedsPass2(P, env) /\ ~LegacyImsaakFlag THEN [t EXCEPT !.x = TRUE] ELSE t

\* the public result: seven entries
Result(P, env) ==
    LET h == Hours(P, env) IN
    [p \in P7 |-> IF p = Imsaak THEN ImsaakTime(P, env) ELSE ToTime(P, p, h[p])]

AnyPanic(P, env, legacyUnwrap) ==
    \/ HoursPanics(P, env, legacyUnwrap)
    \/ HoursPanics(ImsaakP1(P), env, legacyUnwrap)
    \/ ImsaakNeedsPass2(P, env) /\ HoursPanics(ImsaakP2(P), env, legacyUnwrap)

-----------------------------------------------------------------------------
(* circular comparison of clock times *)
CircDiff(a, b) == LET d == (a - b) % DaySecs IN IF d > DaySecs \div 2 THEN d - DaySecs ELSE d
Near(a, b, tol) == LET d == CircDiff(a, b) IN d <= tol /\ -d <= tol
=============================================================================
