SPECIFICATION Spec
CONSTANTS
  MaxDays = 6
  MaxPll = 4
  MaxThr = 2
  NoDropTx = FALSE
INVARIANTS TypeOK NoPanic MergedInRange ResultCorrect NoDuplicate SendersAccounted ExitIsFinal ParallelOnlyWhenAllowed
PROPERTY Terminates
CHECK_DEADLOCK FALSE
