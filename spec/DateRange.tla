------------------------------ MODULE DateRange ------------------------------
(***************************************************************************)
(* Date ranges, their length, their split into k blocks, and the range     *)
(* iteration of the library (src/prayer_times/date.rs, prayer_times_dt_rng) *)
(*                                                                         *)
(* Dates are integers (day numbers).  A range is the pair s, e and denotes *)
(* the set s..e, which is empty when e < s ("end precedes start").         *)
(*                                                                         *)
(* Two levels are specified:                                               *)
(*   - the PROPERTY level (C14): what any correct num_days / partition /   *)
(*     range result must satisfy; traces of the real code are validated    *)
(*     against this level only, so a refactoring that partitions           *)
(*     differently but correctly is not rejected;                          *)
(*   - the IMPLEMENTATION-shaped level: the algorithm of date.rs as a      *)
(*     state machine with one action per loop iteration; TLC checks that   *)
(*     it refines the property level for all small (length, k).            *)
(* LegacyNumDays re-enables the pre-fix behaviour (finding D4: a negative   *)
(* i64 cast to usize) so that TLC can be shown to find it.                 *)
(***************************************************************************)
EXTENDS DateRangeDefs

CONSTANTS MaxLen,        \* explore e - s + 1 in -MinNeg..MaxLen
          MinNeg,
          MaxK,          \* explore k in 0..MaxK
          LegacyNumDays  \* BOOLEAN

Huge == 2000000000   \* stands for the 1.8e19 of a wrapped negative usize

-----------------------------------------------------------------------------
(* Implementation-shaped level *)

NumDaysImpl(s, e) ==
    IF LegacyNumDays THEN (IF e - s + 1 < 0 THEN Huge ELSE e - s + 1)
    ELSE Max(e - s + 1, 0)

VARIABLES s, e, k,        \* the call's arguments (chosen in Init)
          mode,           \* which API is being run: "part" (partition) | "iter" (range)
          pc,             \* "part" | "loop" | "iter" | "done"
          bs, cur, out,   \* partition: block size, cursor, blocks pushed so far
          taken, dates    \* range iteration: how many taken, which dates visited
vars == <<s, e, k, mode, pc, bs, cur, out, taken, dates>>

Init ==
    /\ s = 0
    /\ e \in (s - 1 - MinNeg)..(s - 1 + MaxLen)
    /\ k \in 0..MaxK
    /\ mode \in {"part", "iter"}
    /\ pc = mode
    /\ bs = 0 /\ cur = s /\ out = <<>> /\ taken = 0 /\ dates = {}

\* partition(count): the count < 2 shortcut, else compute the block size
PartStart ==
    /\ pc = "part"
    /\ IF k < 2
       THEN /\ out' = << <<s, e>> >>
            /\ pc' = "done"
            /\ UNCHANGED bs
       ELSE /\ bs' = CeilDiv(NumDaysImpl(s, e), k)
            /\ pc' = "loop"
            /\ UNCHANGED out
    /\ UNCHANGED <<s, e, k, mode, cur, taken, dates>>

\* one iteration of `while start_date_iter <= end_date`
PartLoop ==
    /\ pc = "loop"
    /\ IF cur <= e
       THEN /\ out' = Append(out, <<cur, Min(cur + bs - 1, e)>>)
            /\ cur' = cur + bs
            /\ UNCHANGED pc
       ELSE /\ pc' = "done"
            /\ UNCHANGED <<out, cur>>
    /\ UNCHANGED <<s, e, k, mode, bs, taken, dates>>

\* start.iter_days().take(num_days): one date per step
IterBound == MaxLen + 3    \* the model stops a runaway iteration here
IterStep ==
    /\ pc = "iter"
    /\ IF taken < NumDaysImpl(s, e) /\ taken < IterBound
       THEN /\ dates' = dates \cup {s + taken}
            /\ taken' = taken + 1
            /\ UNCHANGED pc
       ELSE /\ pc' = "done"
            /\ UNCHANGED <<dates, taken>>
    /\ UNCHANGED <<s, e, k, mode, bs, cur, out>>

Next == PartStart \/ PartLoop \/ IterStep

Spec == Init /\ [][Next]_vars /\ WF_vars(Next)

-----------------------------------------------------------------------------
(* What TLC checks on the implementation-shaped level *)

TypeOK ==
    /\ pc \in {"part", "loop", "iter", "done"}
    /\ bs \in Nat /\ taken \in Nat

\* the loop makes progress: a positive block size whenever an iteration can run
Progress == (pc = "loop" /\ cur <= e) => bs >= 1

PartitionCorrect == (mode = "part" /\ pc = "done") => IsPartition(s, e, k, out)
\* the state machine computes the function used by ParRange.tla
PartitionIsFn == (mode = "part" /\ pc = "done" /\ ~LegacyNumDays) => out = PartitionFn(s, e, k)

NumDaysCorrect == NumDaysImpl(s, e) = NumDays(s, e)

RangeCorrect == (mode = "iter" /\ pc = "done") =>
                    /\ dates = DaysOf(s, e)
                    /\ taken = NumDays(s, e)

NoRunaway == taken < IterBound

Terminates == <>(pc = "done")
=============================================================================
