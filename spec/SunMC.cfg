SPECIFICATION Spec
CONSTANT Stride = 97
INVARIANTS UnitVector DecBounded ObliquityRange DailyMotion SiderealGain NoonNearTransit
CHECK_DEADLOCK FALSE
