--------------------------------- MODULE Sun ---------------------------------
(***************************************************************************)
(* ENVIRONMENT: an ephemeris of the Sun that is independent of the library *)
(* (Meeus ch. 12 / 25 "low precision" theory in 32-bit fixed point; the    *)
(* library uses the VSOP87 series in f64).  Accuracy about 0.01 degree in  *)
(* longitude, a few seconds in the equation of time, over 1600..2399.      *)
(*                                                                         *)
(* Time argument: k = days since 2000-01-01 (civil date at Greenwich),     *)
(* s = UT seconds of that day.  Angles in U = 10^-4 degree, unit-vector    *)
(* components scaled by 10^6 (see FixedPoint).  Delta-T is ignored (as the *)
(* library does).                                                          *)
(***************************************************************************)
EXTENDS FixedPoint

DaySec == 86400

\* Julian centuries from J2000.0 (2000-01-01 12 h), times 10^4, and its square times 10^4
T4(k) == DivT((2 * k - 1) * 5000, 36525)
T2(k) == DivT(T4(k) * T4(k), 10000)

\* 0.98564736 degree/day accrued over s seconds (the motion of the mean Sun within the day)
SecTerm(s) == DivT(9856 * s, DaySec) + (s \div 182432)

MeanLong(k, s) == Norm(2804665 + Lin(9856, 4736, k) - 4928 + SecTerm(s) + DivT(3032 * T2(k), 10000000))
MeanAnom(k, s) == Norm(3575291 + Lin(9856, 28, k) - 4928 + SecTerm(s) - DivT(1537 * T2(k), 10000000))
Node(k, s)     == Norm(1250400 - (Lin(529, 5376, k) - 265 + DivT(530 * s, DaySec)))

\* equation of centre, in U
Centre(k, s) ==
    LET m == MeanAnom(k, s)
        c1 == 1914602 - DivT(4817 * T4(k), 10000)       \* units of 10^-6 degree
        c2 == 19993 - DivT(101 * T4(k), 10000)
    IN DivR(MulS(c1, Sin(m)) + MulS(c2, Sin(2 * m)) + MulS(289, Sin(3 * m)), 100)

\* apparent ecliptic longitude (aberration and nutation included), true obliquity
AppLong(k, s) == Norm(MeanLong(k, s) + Centre(k, s) - 57 - DivR(MulS(478, Sin(Node(k, s))), 10))
Obliquity(k, s) == 234393 - DivT(1300 * T4(k), 100000) + DivR(MulS(256, Cos(Node(k, s))), 10)

\* apparent sidereal time at Greenwich
Gast(k, s) == Norm(2804606 + Half + Lin(9856, 4737, k) - 4928 + DivT(s * 125, 3) + SecTerm(s)
                   + DivT(3879 * T2(k), 10000000) - MulS(44, Sin(Node(k, s))))

\* the Sun at UT instant (k, s), s any integer (seconds before / after the day are folded into k)
SunAt(k0, s0) ==
    LET k == k0 + (s0 \div DaySec)
        s == s0 % DaySec
        lam == AppLong(k, s)
        eps == Obliquity(k, s)
        sl == Sin(lam)
    IN [x |-> Cos(lam), y |-> MulS(Cos(eps), sl), z |-> MulS(Sin(eps), sl), gast |-> Gast(k, s)]

\* for an observer at (lat, lon) [U, north / east positive]:
\*   ch = cos(dec) cos(H), sh = cos(dec) sin(H)  (H = local hour angle, positive after transit),
\*   sinalt = sine of the geometric altitude of the Sun's centre
Local(sun, lat, lon) ==
    LET th == sun.gast + lon
        ct == Cos(th)  st == Sin(th)
        ch == MulS(sun.x, ct) + MulS(sun.y, st)
        sh == MulS(sun.x, st) - MulS(sun.y, ct)
    IN [ch |-> ch, sh |-> sh, sinalt |-> MulS(sun.z, Sin(lat)) + MulS(ch, Cos(lat)), sindec |-> sun.z]

\* declination (U) at an instant
Dec(sun) == Asin(sun.z)
=============================================================================
