SPECIFICATION Spec
CONSTANTS
  MaxDays = 3
  MaxPll = 2
  MaxThr = 1
  NoDropTx = TRUE
INVARIANTS TypeOK NoPanic ResultCorrect
PROPERTY Terminates
CHECK_DEADLOCK FALSE
