----------------------------- MODULE SolarTrace -----------------------------
(***************************************************************************)
(* Trace validation of recorded public calls against the ENVIRONMENT       *)
(* specification Sun.tla, for C01-C04, C06 (where is the Sun at the        *)
(* reported instants?) and the relational properties C13 (histories of     *)
(* consecutive dates) and C20 (zone / meridian shifts).                    *)
(*                                                                         *)
(* Events carry: site (lat, lon in 10^-4 degree, gmt in seconds), date     *)
(* (y, m, d and dn = days since 2000-01-01, cross-checked with Calendar),  *)
(* p (parameters: fa / ia / ima angles in 10^-4 degree, sch), and results  *)
(* r = [t, x] (seconds of the civil day or -1, extreme flags).  All calls  *)
(* are unrounded, policy None, no offsets.                                 *)
(*                                                                         *)
(* Tolerances follow DESIGN 4.2: property tolerance + oracle error +       *)
(* 1 s truncation; they are stated next to each clause.                    *)
(***************************************************************************)
EXTENDS Sun, Calendar, Json, IOUtils, TLC

Rec == ndJsonDeserialize(IOEnv.TRACE)
Start == atoi(IOEnv.START)
Debug == "DEBUG" \in DOMAIN IOEnv /\ IOEnv.DEBUG = "1"

VARIABLES l,       \* trace position
          hist     \* C13 history: [n |-> days seen, a |-> day before last, b |-> last day, site, p]
Ev == Rec[l]
Is(name) == l <= Len(Rec) /\ Ev.ev = name
Step == l' = l + 1

Imsaak == 1  Fajr == 2  Shurooq == 3  Dhuhr == 4  Asr == 5  Maghrib == 6  Isha == 7
Ok(r, p) == r.t[p] >= 0
\* reported by conventional calculation: valid and not flagged extreme (calls may run under the default policy)
Conv(r, p) == r.t[p] >= 0 /\ r.x[p] = 0
DateOk(e) == ValidDate(e.date.y, e.date.m, e.date.d) /\ e.date.dn = DN(e.date.y, e.date.m, e.date.d)
Plain(e) == e.p.pol = 0 /\ e.p.rnd = 0 /\ \A i \in 1..7 : e.p.off[i] = 0 /\ e.r.x[i] = 0

CircDiff(a, b) == LET d == (a - b) % DaySec IN IF d > DaySec \div 2 THEN d - DaySec ELSE d
\* signed seconds after the reported Dhuhr, in (-12 h, 12 h]
Rel(r, p) == CircDiff(r.t[p], r.t[Dhuhr])
\* UT seconds, counted from 0 h UT of the civil date, of the reported event p: the event is the
\* one within 12 h of that date's Dhuhr (an Isha after midnight belongs to the date's evening)
Instant(e, p) == e.r.t[Dhuhr] + Rel(e.r, p) - e.site.gmt
SunOf(e, p) == SunAt(e.date.dn, Instant(e, p))
LocalOf(e, p) == Local(SunOf(e, p), e.site.lat, e.site.lon)
\* "that date's declination": at 0 h local civil time (the library's and Meeus' convention)
Sun0(e) == SunAt(e.date.dn, 0 - e.site.gmt)
Sun24(e) == SunAt(e.date.dn, DaySec - e.site.gmt)

\* hour angle (U) of a clock offset from Dhuhr: 15 degrees per hour
HourAngle(sec) == DivT(sec * 125, 3)

\* altitude sine from the hour-angle formula with declination dec (U)
FormulaSinAlt(lat, dec, h) == MulS(Sin(lat), Sin(dec)) + MulS(MulS(Cos(lat), Cos(dec)), Cos(h))

Show(x) == IF Debug THEN PrintT(x) ELSE TRUE

-----------------------------------------------------------------------------
(* C01: Dhuhr is the meridian transit: |hour angle| <= 10 s + 3 s (oracle) + 1 s (truncation) *)
SinTol14s == 1018        \* sin(14 s of time = 0.058333 degree) * 10^6
C01Call ==
    /\ Is("c01") /\ DateOk(Ev) /\ Ev.out = "ret7"
    /\ Ok(Ev.r, Dhuhr)                                   \* Dhuhr is always reported
    /\ LET loc == LocalOf(Ev, Dhuhr)
           cd == Cos(Dec(SunOf(Ev, Dhuhr))) IN
       /\ Show(<<"RES", "c01", l, loc.sh, cd>>)
       /\ AbsI(loc.sh) <= MulS(SinTol14s, cd) + 4        \* cos(dec) |sin H| small
       /\ loc.ch > 0                                     \* upper transit
    /\ Step

(* C02: Shurooq / Maghrib at geometric altitude -0.8333 +- (0.05 + 0.015) degree, on the proper side of noon *)
SinHorizon == 0 - 14544  \* sin(-0.8333 degree) * 10^6
TolAlt065 == 1134        \* 0.065 degree in radians * 10^6 (cos(alt) = 1 at the horizon)
AtHorizon(e, p, side) ==
    Conv(e.r, p) =>
        LET loc == LocalOf(e, p) IN
        /\ Show(<<"RES", "c02", l, p, loc.sinalt - SinHorizon>>)
        /\ AbsI(loc.sinalt - SinHorizon) <= TolAlt065
        /\ side * loc.sh > 0 /\ side * Rel(e.r, p) > 0
C02Call ==
    /\ Is("c02") /\ DateOk(Ev) /\ Ev.out = "ret7" /\ Ok(Ev.r, Dhuhr)
    /\ AtHorizon(Ev, Shurooq, -1) /\ AtHorizon(Ev, Maghrib, 1)
    /\ Step

\* weather (a = absent, b = given): Shurooq / Maghrib move by seconds only; nothing else moves unless derived
C02Weather ==
    /\ Is("c02w")
    /\ \A p \in {Shurooq, Maghrib} :
          /\ Ok(Ev.a, p) = Ok(Ev.b, p)
          /\ Ok(Ev.a, p) => AbsI(CircDiff(Ev.a.t[p], Ev.b.t[p])) < 60
    /\ \A p \in {Dhuhr, Asr} : Ev.a.t[p] = Ev.b.t[p]
    /\ Ev.p.fi = 0 => Ev.a.t[Fajr] = Ev.b.t[Fajr] /\ Ev.a.t[Imsaak] = Ev.b.t[Imsaak]
    /\ Ev.p.ii = 0 => Ev.a.t[Isha] = Ev.b.t[Isha]
    /\ Ev.p.ii # 0 => CircDiff(Ev.b.t[Isha], Ev.a.t[Isha]) = CircDiff(Ev.b.t[Maghrib], Ev.a.t[Maghrib])
                      \/ AbsI(CircDiff(Ev.b.t[Isha], Ev.a.t[Isha]) - CircDiff(Ev.b.t[Maghrib], Ev.a.t[Maghrib])) <= 1
    /\ Step

(* C03: Fajr / Isha / Imsaak at the configured depression *)
\* (i) with that date's declination: within 0.03 + 0.012 degree; (ii) instantaneous altitude within 0.5 + 0.015 degree
Tol042(ang) == MulS(733, Cos(ang)) + 4
Tol515(ang) == MulS(8988, Cos(ang)) + 4
AtDepression(e, p, ang, side) ==
    Conv(e.r, p) =>
        LET dec0 == Dec(Sun0(e))
            h == HourAngle(Rel(e.r, p))
            f == FormulaSinAlt(e.site.lat, dec0, h)
            loc == LocalOf(e, p) IN
        /\ Show(<<"RES", "c03", l, p, f - Sin(0 - ang), loc.sinalt - Sin(0 - ang)>>)
        /\ AbsI(f - Sin(0 - ang)) <= Tol042(ang)
        /\ AbsI(loc.sinalt - Sin(0 - ang)) <= Tol515(ang)
        /\ side * Rel(e.r, p) > 0 \/ AbsI(Rel(e.r, p)) >= 43199       \* at exactly 12 h from Dhuhr the side is undefined
C03Call ==
    /\ Is("c03") /\ DateOk(Ev) /\ Ev.out = "ret7" /\ Ok(Ev.r, Dhuhr)
    /\ AtDepression(Ev, Fajr, Ev.p.fa, -1)
    /\ AtDepression(Ev, Isha, Ev.p.ia, 1)
    /\ AtDepression(Ev, Imsaak, Ev.p.fa + Ev.p.ima, -1)
    /\ Step
\* a larger angle never gives a later Fajr / Imsaak or an earlier Isha (b has the larger angles)
C03Monotone ==
    /\ Is("c03m")
    /\ (Ok(Ev.a, Fajr) /\ Ok(Ev.b, Fajr)) => Rel(Ev.b, Fajr) <= Rel(Ev.a, Fajr)
    /\ (Ok(Ev.a, Imsaak) /\ Ok(Ev.b, Imsaak)) => Rel(Ev.b, Imsaak) <= Rel(Ev.a, Imsaak)
    /\ (Ok(Ev.a, Isha) /\ Ok(Ev.b, Isha)) => Rel(Ev.b, Isha) >= Rel(Ev.a, Isha)
    /\ Ev.a.t[Dhuhr] = Ev.b.t[Dhuhr]
    \* a time that exists at the larger depression exists at the smaller one
    /\ Ok(Ev.b, Fajr) => Ok(Ev.a, Fajr)
    /\ Ok(Ev.b, Isha) => Ok(Ev.a, Isha)
    /\ Step

(* C04: Asr at the altitude where shadow = k * height + noon shadow: cot(a) = k + tan|lat - dec| *)
\* f(a) = cos a cos z - sin a (k cos z + sin z) is decreasing in a; its root by bisection
AsrF(a, z, kk) == MulS(Cos(a), Cos(z)) - (kk * MulS(Sin(a), Cos(z)) + MulS(Sin(a), Sin(z)))
RECURSIVE AsrRoot(_, _, _, _, _)
AsrRoot(z, kk, lo, hi, n) ==
    IF n = 0 \/ hi - lo <= 1 THEN (lo + hi) \div 2
    ELSE LET mid == (lo + hi) \div 2 IN
         IF AsrF(mid, z, kk) >= 0 THEN AsrRoot(z, kk, mid, hi, n - 1) ELSE AsrRoot(z, kk, lo, mid, n - 1)
AsrAltitude(lat, dec, kk) == AsrRoot(AbsI(lat - dec), kk, 0, Quarter, 22)
C04Call ==
    /\ Is("c04") /\ DateOk(Ev) /\ Ev.out = "ret7" /\ Ok(Ev.r, Dhuhr)
    /\ Conv(Ev.r, Asr) =>
          LET dec0 == Dec(Sun0(Ev))
              a == Asin(FormulaSinAlt(Ev.site.lat, dec0, HourAngle(Rel(Ev.r, Asr))))
              want == AsrAltitude(Ev.site.lat, dec0, Ev.p.sch) IN
          /\ Show(<<"RES", "c04", l, a - want>>)
          /\ AbsI(a - want) <= 370                        \* 0.03 + 0.007 degree (measured residual of the oracle: max 0.0062)
          /\ Rel(Ev.r, Asr) > 0                           \* strictly after Dhuhr
          /\ Ok(Ev.r, Maghrib) => Rel(Ev.r, Asr) < Rel(Ev.r, Maghrib)
    /\ Step
\* a = Shafi, b = Hanafi for the same place and date: Hanafi strictly later, nothing else differs
C04Schools ==
    /\ Is("c04s")
    /\ (Ok(Ev.a, Asr) /\ Ok(Ev.b, Asr)) => Rel(Ev.b, Asr) > Rel(Ev.a, Asr)
    /\ \A p \in {Imsaak, Fajr, Shurooq, Dhuhr, Maghrib, Isha} : Ev.a.t[p] = Ev.b.t[p]
    /\ Step

(* C06: Invalid exactly when the Sun never reaches the defining altitude that date *)
MaxAlt(lat, dec) == Quarter - AbsI(lat - dec)
MinAlt(lat, dec) == AbsI(lat + dec) - Quarter
Margin == 650            \* 0.05 degree (the property's exemption) + 0.015 degree (oracle)
Surely(lat, d0, d1, alt) ==      \* the Sun passes altitude alt that day, whichever declination is taken
    \A d \in {d0, d1} : MinAlt(lat, d) + Margin <= alt /\ alt <= MaxAlt(lat, d) - Margin
Never(lat, d0, d1, alt) ==
    \A d \in {d0, d1} : alt < MinAlt(lat, d) - Margin \/ alt > MaxAlt(lat, d) + Margin
Exists(e, p, alt) ==
    LET d0 == Dec(Sun0(e))  d1 == Dec(Sun24(e)) IN
    /\ Surely(e.site.lat, d0, d1, alt) => Ok(e.r, p)
    /\ Never(e.site.lat, d0, d1, alt) => ~Ok(e.r, p)
\* Asr's defining altitude a* = arccot(k + tan z), z = |lat - dec|, lies below the noon altitude 90 - z
\* whenever the Sun culminates above the horizon (z < 90): then Asr exists iff the Sun gets down to a*.
\* With the Sun below the horizon all day (z >= 90) a shadow rule defines nothing: no claim (1 degree guard band).
AsrExists(e) ==
    LET d0 == Dec(Sun0(e))  d1 == Dec(Sun24(e))
        z0 == AbsI(e.site.lat - d0)  z1 == AbsI(e.site.lat - d1)
        a0 == AsrAltitude(e.site.lat, d0, e.p.sch)  a1 == AsrAltitude(e.site.lat, d1, e.p.sch) IN
    (z0 < 890000 /\ z1 < 890000) =>
        /\ (MinAlt(e.site.lat, d0) + Margin <= a0 /\ MinAlt(e.site.lat, d1) + Margin <= a1) => Ok(e.r, Asr)
        /\ (MinAlt(e.site.lat, d0) - Margin > a0 /\ MinAlt(e.site.lat, d1) - Margin > a1) => ~Ok(e.r, Asr)
C06Call ==
    /\ Is("c06") /\ DateOk(Ev) /\ Ev.out = "ret7" /\ Ok(Ev.r, Dhuhr)
    /\ Exists(Ev, Fajr, 0 - Ev.p.fa) /\ Exists(Ev, Isha, 0 - Ev.p.ia)
    /\ Exists(Ev, Imsaak, 0 - (Ev.p.fa + Ev.p.ima))
    /\ Exists(Ev, Shurooq, 0 - 8334) /\ Exists(Ev, Maghrib, 0 - 8334)
    /\ AsrExists(Ev)
    /\ Step

-----------------------------------------------------------------------------
(* C13: histories of consecutive dates.  "h0" starts a history at a site; each "hday" is the next
   calendar date's result.  The bounds are the property's plus 2 s (three truncated times). *)
Lat(e) == AbsI(e.site.lat)
Bound2(e, p) ==      \* bound on the second difference, or -1 where the property does not speak
    CASE p = Dhuhr -> IF Lat(e) <= 450000 THEN 5 + 2 ELSE -1
      [] p \in {Shurooq, Maghrib} -> IF Lat(e) <= 450000 THEN 8 + 2 ELSE -1
      [] p = Asr -> IF Lat(e) >= 250000 /\ Lat(e) <= 450000 THEN 8 + 2 ELSE -1
      [] p \in {Fajr, Isha} -> IF Lat(e) <= 400000 THEN 12 + 2 ELSE -1
      [] OTHER -> -1
HStart ==
    /\ Is("h0")
    /\ hist' = [n |-> 0, a |-> <<>>, b |-> <<>>, dn |-> 0, site |-> Ev.site]
    /\ Step
HDay ==
    /\ Is("hday") /\ DateOk(Ev)
    /\ hist.n = 0 \/ Ev.date.dn = hist.dn + 1                      \* consecutive calendar dates
    /\ LET e == [site |-> hist.site] IN
       \A p \in 2..7 :
          /\ (hist.n >= 1 /\ hist.b[p] >= 0 /\ Ev.r.t[p] >= 0 /\ Bound2(e, p) >= 0) =>
                AbsI(CircDiff(Ev.r.t[p], hist.b[p])) <= 240        \* day-to-day change below 4 minutes
          /\ (hist.n >= 2 /\ hist.a[p] >= 0 /\ hist.b[p] >= 0 /\ Ev.r.t[p] >= 0 /\ Bound2(e, p) >= 0) =>
                AbsI(CircDiff(Ev.r.t[p], hist.b[p]) - CircDiff(hist.b[p], hist.a[p])) <= Bound2(e, p)
    /\ hist' = [hist EXCEPT !.n = @ + 1, !.a = hist.b, !.b = Ev.r.t, !.dn = Ev.date.dn]
    /\ Step

(* C20: a / b = the same date at two zone settings.
   kind "gmt": same site, gmt + d seconds  => every time + d (mod 24 h) within 10 + 2 s
   kind "lon": 15 degrees east and gmt + 1 h => every clock time unchanged within 10 + 2 s
   An entry is skipped when the shift moves it across (or within 30 s of) civil midnight: the
   library then reports the adjacent solar day's event, which the property does not compare. *)
NearMidnight(t) == t < 30 \/ t > DaySec - 30
Crosses(t, d) == t + d < 30 \/ t + d > DaySec - 30
\* an entry is not compared when the shift moves it across civil midnight (or it lies within 30 s of it),
\* nor when it is defined by an interval from such an entry (Isha from Maghrib, Fajr / Imsaak from Shurooq)
\* ... or when the reported time and the expected one lie on different sides of civil midnight: near the seam two
\* occurrences of the event (yesterday evening's and this evening's) fall inside the civil date, a day-to-day drift
\* (up to ~2 min) apart, and the library reports the one its day fraction wraps to
SeamSkipped(p, d) ==
    \/ (Ev.a.t[p] >= 0 /\ (Crosses(Ev.a.t[p], d) \/ NearMidnight(Ev.a.t[p])))
    \/ (Ev.b.t[p] >= 0 /\ NearMidnight(Ev.b.t[p]))
    \/ (Ev.a.t[p] >= 0 /\ Ev.b.t[p] >= 0 /\ AbsI(Ev.b.t[p] - (Ev.a.t[p] + d)) > DaySec \div 2)
Skipped(p, d) ==
    \/ SeamSkipped(p, d)
    \/ (p = Isha /\ Ev.p.ii # 0 /\ SeamSkipped(Maghrib, d))
    \/ (p \in {Fajr, Imsaak} /\ Ev.p.fi # 0 /\ SeamSkipped(Shurooq, d))
C20Within(tol) ==
    LET d == IF Ev.kind = "gmt" THEN Ev.d ELSE 0 IN
    \A p \in 1..7 :
       \/ Skipped(p, d)
       \/ /\ (Ev.a.t[p] >= 0) = (Ev.b.t[p] >= 0)
          /\ Ev.a.t[p] >= 0 => AbsI(CircDiff(Ev.b.t[p], Ev.a.t[p] + d)) <= tol
C20Call == Is("c20") /\ C20Within(12) /\ Step

\* KNOWN FINDING F1 (known_findings.json), modelled as what the code actually does: the date's
\* declination is sampled at 0 h local civil time, so a zone shift of 3 h or more moves the times by
\* up to ~17 s more than the shift.  Enabled only while the finding is listed; every use is printed.
KnownF1 == "KNOWN_F1" \in DOMAIN IOEnv /\ IOEnv.KNOWN_F1 = "1"
C20KnownF1 ==
    /\ Is("c20") /\ KnownF1 /\ Ev.kind = "gmt" /\ AbsI(Ev.d) >= 10800
    /\ ~C20Within(12) /\ C20Within(25)
    /\ PrintT(<<"KNOWN", "F1", l>>)
    /\ Step

TraceInit == l = Start /\ hist = [n |-> 0, a |-> <<>>, b |-> <<>>, dn |-> 0, site |-> [lat |-> 0]]
Stateless == C01Call \/ C02Call \/ C02Weather \/ C03Call \/ C03Monotone \/ C04Call \/ C04Schools \/ C06Call \/ C20Call \/ C20KnownF1
TraceNext == (Stateless /\ UNCHANGED hist) \/ HStart \/ HDay
TraceSpec == TraceInit /\ [][TraceNext]_<<l, hist>>

TraceAccepted ==
    LET d == TLCGet("stats").diameter IN
    /\ PrintT(<<"MATCHED", Start + d - 2, Len(Rec)>>)
    /\ Start + d - 2 = Len(Rec)
=============================================================================
