-------------------------------- MODULE Qibla --------------------------------
(***************************************************************************)
(* C16: the Qibla angle is the initial great-circle bearing to the Kaaba   *)
(* (21.4233 N, 39.8233 E), reported as q in (-180, 180], positive meaning  *)
(* counter-clockwise (west) of true north.                                 *)
(* Vector definition, independent of the library's atan2 formula: in the   *)
(* local east/north frame the Kaaba lies along                             *)
(*     E = cos(latK) sin(D),  N = cos(lat) sin(latK) - sin(lat) cos(latK) cos(D),  D = lonK - lon *)
(* and q points along (-sin q, cos q).  q is right iff the two are         *)
(* parallel and equally oriented.  Fixed point: angles in U = 10^-4 deg.   *)
(***************************************************************************)
EXTENDS FixedPoint

KLat == 214233
KLon == 398233

East(lat, lon) == MulS(Cos(KLat), Sin(KLon - lon))
North(lat, lon) == MulS(Cos(lat), Sin(KLat)) - MulS(MulS(Sin(lat), Cos(KLat)), Cos(KLon - lon))

Cross(lat, lon, q) == MulS(East(lat, lon), Cos(q)) + MulS(North(lat, lon), Sin(q))
Dot(lat, lon, q) == MulS(North(lat, lon), Cos(q)) - MulS(East(lat, lon), Sin(q))

\* q agrees with the bearing within 0.001 degree (+ the fixed-point noise, which dominates within
\* a few degrees of the Kaaba and its antipode, where the bearing is ill-conditioned)
SinTol == 17             \* sin(0.001 degree) * 10^6
IsBearing(lat, lon, q) ==
    /\ Dot(lat, lon, q) > 0
    /\ AbsI(Cross(lat, lon, q)) <= MulS(SinTol, Dot(lat, lon, q)) + 6

\* great-circle distance from the Kaaba or its antipode below 0.1 degree: bearing undefined (exempt)
\* cos(dist) = sin lat sin latK + cos lat cos latK cos D;  cos(0.1 degree) = 0.9999985
CosDist(lat, lon) == MulS(Sin(lat), Sin(KLat)) + MulS(MulS(Cos(lat), Cos(KLat)), Cos(KLon - lon))
Exempt(lat, lon) == AbsI(CosDist(lat, lon)) >= 999990     \* within ~0.26 degree: covers 0.1 degree + table noise

\* the specification's own bearing, by bisection on the half circle the Kaaba lies in
RECURSIVE Bis(_, _, _, _, _)
Bis(lat, lon, lo, hi, n) ==      \* Cross is increasing through its root on (lo, hi)
    IF n = 0 \/ hi - lo <= 1 THEN (lo + hi) \div 2
    ELSE LET mid == (lo + hi) \div 2 IN
         IF Cross(lat, lon, mid) <= 0 THEN Bis(lat, lon, mid, hi, n - 1) ELSE Bis(lat, lon, lo, mid, n - 1)
SpecBearing(lat, lon) ==
    LET e == East(lat, lon) IN
    IF e < 0 THEN Bis(lat, lon, 0, Half, 23)                \* Kaaba to the west: q in (0, 180)
    ELSE IF e > 0 THEN 0 - Bis(lat, 2 * KLon - lon, 0, Half, 23)   \* to the east: mirror image
    ELSE IF North(lat, lon) >= 0 THEN 0 ELSE Half
=============================================================================
