INIT Init
NEXT Next
