------------------------------- MODULE Surface -------------------------------
(***************************************************************************)
(* Behaviour of the library's surface that the 20 listed properties do not *)
(* speak about, specified so that the specification covers the system and  *)
(* not only the properties (DESIGN 3.1).  Checked by bin/conform, which    *)
(* reports drift from the documentation as CONFORMANCE lines and never as  *)
(* a property violation.                                                   *)
(*   - the documented method table of Params::new (module docs of          *)
(*     src/prayer_times/params.rs)                                         *)
(*   - the 12-hour clock text of PrayerTime ("%l:%M %p" + " (extreme)")    *)
(*   - "<rounded |v|> <N|S|E|W>" of Latitude / Longitude, "<v> meters"     *)
(*   - Hijri month / weekday names                                         *)
(*   - JSON round trips of Params, Location, DateRange, results            *)
(***************************************************************************)
EXTENDS Integers, Sequences

\* method index (the harness' order): 0 None 1 Egyptian 2 Egypt 3 Shafi 4 Hanafi 5 Isna 6 Mwl 7 UmmAlQurra 8 FixedIsha
\* angles in 10^-4 degree, intervals in seconds
Method(fa, ia, ii, sch) == [fa |-> fa, ia |-> ia, ima |-> 15000, fi |-> 0, ii |-> ii, imi |-> 0,
                            rnd |-> 2, sch |-> sch, pol |-> 6, off |-> <<0, 0, 0, 0, 0, 0, 0>>]
MethodTable == << Method(0, 0, 0, 1),            \* None
                  Method(200000, 180000, 0, 1),  \* Egyptian General Authority of Survey
                  Method(195000, 175000, 0, 1),  \* Egypt
                  Method(180000, 180000, 0, 1),  \* Karachi, Shafi
                  Method(180000, 180000, 0, 2),  \* Karachi, Hanafi
                  Method(150000, 150000, 0, 1),  \* ISNA
                  Method(180000, 170000, 0, 1),  \* Muslim World League
                  Method(180000, 0, 5400, 1),    \* Umm Al-Qurra: Isha 90 minutes after Maghrib
                  Method(195000, 0, 5400, 1) >>  \* Fixed Isha interval

\* 12-hour clock of a time of day t (seconds): hour 1..12, minute, PM?
Hour12(t) == LET h == t \div 3600 IN IF h % 12 = 0 THEN 12 ELSE h % 12
Minute(t) == (t % 3600) \div 60
IsPM(t) == t \div 3600 >= 12

\* round half away from zero of |v| given v * 10^4
RoundAbs(v4) == ((IF v4 < 0 THEN -v4 ELSE v4) + 5000) \div 10000
LatDir(v4) == IF v4 >= 0 THEN "N" ELSE "S"
LonDir(v4) == IF v4 >= 0 THEN "E" ELSE "W"

HijriMonths == << "Muharram", "Safar", "Rabia Awal", "Rabia Thani", "Jumada Awal", "Jumada Thani", "Rajab",
                  "Shaaban", "Ramadan", "Shawwal", "Dhul Qiddah", "Dhul Hijjah" >>
HijriDays == << "Ahad", "Ithnain", "Thulatha", "Arbiaa", "Khamees", "Jumaah", "Sabt" >>
\* the tool's date defaults (read_params_cli; the comments in src/cli.rs say "default today" for both dates, the code - and
\* this specification - resolve an omitted end date to the START date): <<first, last>> day numbers of the range computed
CliRange(mode, d, today) == CASE mode = "s" -> <<d, d>>
                              [] mode = "n" -> <<today, d>>
                              [] OTHER -> <<today, today>>
CliCount(rng) == IF rng[2] < rng[1] THEN 0 ELSE rng[2] - rng[1] + 1

PrayerNames == << "Imsaak", "Fajr", "Shurooq", "Dhuhr", "Asr", "Maghrib", "Isha" >>
=============================================================================
