----------------------------- MODULE HijriDefs -----------------------------
(***************************************************************************)
(* The arithmetic (tabular) Islamic calendar, defined from its 30-year     *)
(* cycle, independently of the search loops of src/hijri_date.rs:          *)
(*   - epoch 1 Muharram 1 AH = RD 227015 = 0622-07-19 (proleptic           *)
(*     Gregorian), a Friday;                                               *)
(*   - a cycle has 30 years = 10631 days; years 2,5,7,10,13,16,18,21,24,   *)
(*     26,29 of the cycle are leap (355 days), the others have 354;        *)
(*   - months alternate 30, 29, ... ; the twelfth has 30 days in leap years *)
(*   - years <= 0 (astronomical numbering, extended by the same cycle) are *)
(*     reported as "before Hijra": year 0 is 1 BH, year -1 is 2 BH, ...     *)
(***************************************************************************)
EXTENDS Integers, FiniteSets

Epoch == 227015
CycleDays == 10631
LeapInCycle == {2, 5, 7, 10, 13, 16, 18, 21, 24, 26, 29}

\* days of the cycle before year j of the cycle (j in 1..31)
CycDaysBefore(j) == 354 * (j - 1) + Cardinality({q \in LeapInCycle : q < j})

\* days of the year before month m (m in 1..13): 30, 29, 30, 29, ...
MonthDaysBefore(m) == 30 * (m \div 2) + 29 * ((m - 1) \div 2)

CycleYear(y) == ((y - 1) % 30) + 1            \* position of astronomical year y in its cycle
IsLeap(y) == CycleYear(y) \in LeapInCycle
YearLen(y) == IF IsLeap(y) THEN 355 ELSE 354
MonthLen(y, m) == IF m = 12 THEN (IF IsLeap(y) THEN 30 ELSE 29)
                  ELSE IF m % 2 = 1 THEN 30 ELSE 29

\* astronomical year/month/day of absolute day a
TabYMD(a) ==
    LET n == a - Epoch
        c == n \div CycleDays                  \* floor division: negative before the epoch
        r == n % CycleDays                     \* 0 .. 10630
        j == CHOOSE q \in 1..30 : CycDaysBefore(q) <= r /\ r < CycDaysBefore(q + 1)
        doy == r - CycDaysBefore(j)            \* 0-based day of year
        y == 30 * c + j
        m == CHOOSE q \in 1..12 :
                /\ MonthDaysBefore(q) <= doy
                /\ doy < MonthDaysBefore(q) + MonthLen(y, q)
    IN [y |-> y, m |-> m, d |-> doy - MonthDaysBefore(m) + 1]

\* what the library reports: unsigned year + before-Hijra flag
Reported(ymd) == [y  |-> IF ymd.y <= 0 THEN 1 - ymd.y ELSE ymd.y,
                  m  |-> ymd.m, d |-> ymd.d,
                  bh |-> ymd.y <= 0]
Tab(a) == Reported(TabYMD(a))

\* first day of astronomical year y, of month m of y
YearStart(y) == Epoch + CycleDays * ((y - 1) \div 30) + CycDaysBefore(CycleYear(y))
MonthStart(y, m) == YearStart(y) + MonthDaysBefore(m)

ASSUME CycDaysBefore(31) = CycleDays
ASSUME MonthDaysBefore(13) = 354
ASSUME \A y \in -65..65 : YearStart(y + 1) - YearStart(y) = YearLen(y)
ASSUME Cardinality(LeapInCycle) = 11
ASSUME TabYMD(Epoch) = [y |-> 1, m |-> 1, d |-> 1]
ASSUME TabYMD(Epoch - 1) = [y |-> 0, m |-> 12, d |-> 29]
=============================================================================
