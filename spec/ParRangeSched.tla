--------------------------- MODULE ParRangeSched ---------------------------
(***************************************************************************)
(* Spec -> impl direction for C15: every maximal behaviour of ParRange for *)
(* a fixed small (days, parallelism, threshold) is emitted as the sequence *)
(* of its LOGGED actions (the hook points); the harness replays each one   *)
(* through the real prayer_times_dt_rng_block by releasing the threads at  *)
(* the hook points strictly in that order.  hist is a history variable     *)
(* (it multiplies states; the constants are kept tiny for that reason).    *)
(* Unlogged steps (SpawnDone, the workers' Sender drops) leave hist alone. *)
(***************************************************************************)
EXTENDS ParRange

CONSTANTS NDays, Pll, Thr
VARIABLE hist
svars == <<vars, hist>>

SInit == InitWith(NDays, Pll, Thr) /\ hist = <<>>
Log(x) == hist' = Append(hist, x)

SNext ==
    \/ Decide /\ Log(<<"decide", 0>>)
    \/ SeqRun /\ Log(<<"ret", 0>>)
    \/ SpawnColl /\ Log(<<"spawn_coll", 0>>)
    \/ MCPartition /\ Log(<<"partition", 0>>)
    \/ MCSpawn /\ Log(<<"spawn_worker", Len(blocks) + 1>>)
    \/ SpawnDone /\ UNCHANGED hist
    \/ DropTx /\ Log(<<"drop_tx", 0>>)
    \/ Join /\ Log(<<"ret", 0>>)
    \/ CollStart /\ Log(<<"coll_start", 0>>)
    \/ RecvOk /\ Log(<<"recv_ok", Head(chan)>>)
    \/ RecvErr /\ Log(<<"recv_err", 0>>)
    \/ \E i \in 1..MaxPll : \/ WStart(i) /\ Log(<<"w_start", i>>)
                            \/ WSend(i) /\ Log(<<"w_send", i>>)
                            \/ WExit(i) /\ UNCHANGED hist
SSpec == SInit /\ [][SNext]_svars

Emit == mpc = "done" => PrintT(ToString(<<"SCHED", N, P, T, hist>>))
=============================================================================
