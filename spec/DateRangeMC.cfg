SPECIFICATION Spec
CONSTANTS
  MaxLen = 70
  MinNeg = 5
  MaxK = 64
  LegacyNumDays = FALSE
INVARIANTS TypeOK Progress PartitionCorrect PartitionIsFn NumDaysCorrect RangeCorrect NoRunaway
PROPERTY Terminates
CHECK_DEADLOCK FALSE
