SPECIFICATION Spec
CONSTANTS
  UNeg = 90000
  UHi = 180000
  UStep = 1
INVARIANTS MatchesProperty InDay NoneIsIdentity WholeMinute LessThanAMinute Direction NormalRule ShurooqTruncates AggressiveRule
CHECK_DEADLOCK FALSE
