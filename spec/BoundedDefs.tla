---------------------------- MODULE BoundedDefs ----------------------------
(***************************************************************************)
(* The six range-validated quantities (C18) and their documented closed    *)
(* ranges, with IEEE-754 doubles represented exactly:                      *)
(*   a double is [neg |-> 0/1, mag |-> <<a, b, c>>] where the 63 magnitude *)
(*   bits are split into three 21-bit integers (TLC integers are 32 bit).  *)
(* Ordering of finite doubles is the ordering of these keys, so "in range" *)
(* is decided by TLC from the bits the harness logs, not by the harness.   *)
(***************************************************************************)
EXTENDS Integers, Sequences

Types == 1..6    \* 1 Gmt, 2 Latitude, 3 Longitude, 4 Elevation, 5 Pressure, 6 Temperature
TypeName == <<"Gmt", "Latitude", "Longitude", "Elevation", "Pressure", "Temperature">>

D(n, a) == [neg |-> n, mag |-> <<a, 0, 0>>]      \* doubles whose low 42 bits are zero
\* bit patterns of the documented bounds (all are small integers)
Lo == << D(1, 1051136) (* -12 *),  D(1, 1054112) (* -90 *), D(1, 1055136) (* -180 *),
         D(1, 1056400) (* -420 *), D(0, 1054272) (* 100 *), D(1, 1054112) (* -90 *) >>
Hi == << D(0, 1051136) (* 12 *),   D(0, 1054112) (* 90 *),  D(0, 1055136) (* 180 *),
         D(0, 1060946) (* 8848 *), D(0, 1057818) (* 1050 *), D(0, 1053472) (* 57 *) >>

Exponent(x) == x.mag[1] \div 1024                 \* top 11 of the 63 magnitude bits
IsFinite(x) == Exponent(x) < 2047
IsNaN(x) == Exponent(x) = 2047 /\ (x.mag[1] % 1024 # 0 \/ x.mag[2] # 0 \/ x.mag[3] # 0)
IsZero(x) == x.mag = <<0, 0, 0>>

MagLess(p, q) == \/ p[1] < q[1]
                 \/ p[1] = q[1] /\ p[2] < q[2]
                 \/ p[1] = q[1] /\ p[2] = q[2] /\ p[3] < q[3]

\* numeric x < y for finite doubles (-0 = +0)
Less(x, y) ==
    IF IsZero(x) /\ IsZero(y) THEN FALSE
    ELSE IF x.neg = 1 /\ y.neg = 0 THEN TRUE
    ELSE IF x.neg = 0 /\ y.neg = 1 THEN FALSE
    ELSE IF x.neg = 0 THEN MagLess(x.mag, y.mag)
    ELSE MagLess(y.mag, x.mag)
Leq(x, y) == ~Less(y, x)

\* THE PROPERTY: a value of type ty exists iff it is finite and inside the closed range
InRange(ty, x) == IsFinite(x) /\ Leq(Lo[ty], x) /\ Leq(x, Hi[ty])

SameBits(x, y) == x.neg = y.neg /\ x.mag = y.mag

\* which construction routes a type offers
HasRoute(ty, route) == route \in {"num", "json", "doc"} \/ (route = "txt" /\ ty <= 4)

ASSUME InRange(2, D(0, 1054112)) /\ ~InRange(2, [neg |-> 0, mag |-> <<1054112, 0, 1>>])
ASSUME InRange(5, D(0, 1054272)) /\ ~InRange(5, [neg |-> 0, mag |-> <<1054271, 2097151, 2097151>>])
ASSUME ~InRange(1, D(0, 2096128)) /\ IsNaN(D(0, 2096640)) /\ ~IsNaN(D(1, 2096128))
ASSUME InRange(4, D(1, 0)) /\ InRange(1, [neg |-> 0, mag |-> <<0, 0, 1>>])
=============================================================================
