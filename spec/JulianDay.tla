------------------------------ MODULE JulianDay ------------------------------
(***************************************************************************)
(* JulianDay::new (src/geo/julian_day.rs) in integer arithmetic, against   *)
(* the proleptic Gregorian day count of Calendar.tla.                      *)
(* Meeus' formula:  if m <= 2 then (Y, M) = (y - 1, m + 12) else (y, m);   *)
(*   A = Y div 100;  B = 2 - A + A div 4   (Gregorian dates)               *)
(*   JD = floor(365.25 (Y + 4716)) + floor(30.6001 (M + 1)) + d + B - 1524.5 *)
(* Twice the value is kept so that everything is an integer.               *)
(* Design-level lemma behind C01 / C13 / C20: for every civil date of      *)
(* 1583..2399 the Julian day of 0 h UT is the day count plus a constant,   *)
(* so consecutive civil dates are exactly one day apart - no calendar-     *)
(* induced jumps.  LegacyCentury re-creates a seeded defect (the century   *)
(* taken from the civil year instead of the month-shifted year) as a       *)
(* vacuity self-test.                                                      *)
(***************************************************************************)
EXTENDS Calendar, TLC

CONSTANTS YLo, YHi, LegacyCentury

\* 2 * JD at 0 h UT
JD2(y, m, d) ==
    LET Y == IF m <= 2 THEN y - 1 ELSE y
        M == IF m <= 2 THEN m + 12 ELSE m
        A == (IF LegacyCentury THEN y ELSE Y) \div 100
        B == 2 - A + (A \div 4)
        C == (36525 * (Y + 4716)) \div 100           \* floor(365.25 (Y + 4716))
        E == (306001 * (M + 1)) \div 10000           \* floor(30.6001 (M + 1))
    IN 2 * (C + E + d + B) - 3049                    \* - 1524.5, doubled

\* JD of RD 1 (0001-01-01, proleptic Gregorian) is 1721425.5
Offset2 == 2 * 1721425 + 1 - 2

VARIABLES y, m, d
vars == <<y, m, d>>
Init == y = YLo /\ m = 1 /\ d = 1
Next == IF d < DaysInMonth(y, m) THEN d' = d + 1 /\ UNCHANGED <<y, m>>
        ELSE IF m < 12 THEN m' = m + 1 /\ d' = 1 /\ UNCHANGED y
        ELSE y < YHi /\ y' = y + 1 /\ m' = 1 /\ d' = 1
Spec == Init /\ [][Next]_vars

\* the formula is the day count plus a constant
MatchesDayCount == JD2(y, m, d) = 2 * RD(y, m, d) + Offset2
\* an action property: the next civil date is exactly one day later
OneDayApart == [][JD2(y', m', d') = JD2(y, m, d) + 2]_vars
=============================================================================
