SPECIFICATION Spec
CONSTANT LegacyNoTruncate = FALSE
INVARIANTS RejectClean NothingBeforeParse AcceptComplete Decision Emit
PROPERTY Terminates
CHECK_DEADLOCK FALSE
