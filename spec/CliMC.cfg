SPECIFICATION Spec
INVARIANTS RejectClean NothingBeforeParse AcceptComplete Decision Emit
PROPERTY Terminates
CHECK_DEADLOCK FALSE
