------------------------------ MODULE ParRange ------------------------------
(***************************************************************************)
(* prayer_times_dt_rng_block (src/prayer_times/mod.rs): the main thread    *)
(* decides sequential / parallel; in the parallel case it spawns one       *)
(* collector thread that merges partial maps received over an mpsc channel *)
(* until every Sender is dropped, partitions the range, spawns one worker  *)
(* per block (each holding a clone of the Sender, computing its block with *)
(* the sequential API and sending it), drops its own Sender and joins the  *)
(* collector.  One action per hook point of DESIGN §2.1.                   *)
(*                                                                         *)
(* Days of the range are 1..N; a per-day result is a function of the day,  *)
(* so a map is represented by its key set.  P = parallelism, T = threshold.*)
(* NoDropTx = TRUE removes the main thread's drop(tx) (vacuity self-test:  *)
(* the collector then never terminates).                                   *)
(***************************************************************************)
EXTENDS DateRangeDefs, TLC

CONSTANTS MaxDays, MaxPll, MaxThr, NoDropTx

VARIABLES N, P, T,    \* the call's range length, detected parallelism, min_days_for_pll
          mpc,        \* main: "decide" | "seq" | "spawn_coll" | "partition" | "spawning" | "drop" | "join" | "done"
          nblocks,    \* number of blocks partition() returned
          blocks,     \* blocks handed to workers so far: sequence of <<first, last>>
          wpc,        \* per spawned worker: "spawned" | "started" | "sent" | "gone"
          chan,       \* the channel: FIFO of worker indices whose partial map is in flight
          senders,    \* live Sender handles: main's + one per worker not yet gone
          cpc,        \* collector: "none" | "spawned" | "run" | "exit"
          merged,     \* days merged by the collector so far
          recvd,      \* worker indices in the order received
          result,     \* the returned key set (once mpc = "done")
          panic       \* a send found the receiver gone (tx.send(..).unwrap() panics)
vars == <<N, P, T, mpc, nblocks, blocks, wpc, chan, senders, cpc, merged, recvd, result, panic>>

Days(b) == b[1]..b[2]
Sequential == P = 1 \/ (N \div P) < T

InitWith(n, p, t) ==
    /\ N = n /\ P = p /\ T = t
    /\ mpc = "decide" /\ nblocks = 0 /\ blocks = <<>> /\ wpc = <<>> /\ chan = <<>>
    /\ senders = 0 /\ cpc = "none" /\ merged = {} /\ recvd = <<>> /\ result = {} /\ panic = FALSE

\* the same, as an action (used by the trace spec to start the next recorded run)
ResetTo(n, p, t) ==
    /\ N' = n /\ P' = p /\ T' = t
    /\ mpc' = "decide" /\ nblocks' = 0 /\ blocks' = <<>> /\ wpc' = <<>> /\ chan' = <<>>
    /\ senders' = 0 /\ cpc' = "none" /\ merged' = {} /\ recvd' = <<>> /\ result' = {} /\ panic' = FALSE

Init == \E n \in 0..MaxDays, p \in 1..MaxPll, t \in 0..MaxThr : InitWith(n, p, t)

-----------------------------------------------------------------------------
(* main thread *)
Decide ==
    /\ mpc = "decide"
    /\ mpc' = IF Sequential THEN "seq" ELSE "spawn_coll"
    /\ UNCHANGED <<N, P, T, nblocks, blocks, wpc, chan, senders, cpc, merged, recvd, result, panic>>

\* the same step with the decision left open: which path is taken is not part of C15 (both must give the same map), so
\* the trace specification accepts either and only notes a decision that differs from the documented rule
DecideTo(t) ==
    /\ mpc = "decide" /\ t \in {"seq", "spawn_coll"}
    /\ mpc' = t
    /\ UNCHANGED <<N, P, T, nblocks, blocks, wpc, chan, senders, cpc, merged, recvd, result, panic>>

SeqRun ==
    /\ mpc = "seq"
    /\ result' = 1..N /\ mpc' = "done"
    /\ UNCHANGED <<N, P, T, nblocks, blocks, wpc, chan, senders, cpc, merged, recvd, panic>>

\* channel() then spawn of the collector (which owns the Receiver)
SpawnColl ==
    /\ mpc = "spawn_coll"
    /\ senders' = 1 /\ cpc' = "spawned" /\ mpc' = "partition"
    /\ UNCHANGED <<N, P, T, nblocks, blocks, wpc, chan, merged, recvd, result, panic>>

PartitionCall(k) ==
    /\ mpc = "partition"
    /\ nblocks' = k /\ mpc' = "spawning"
    /\ UNCHANGED <<N, P, T, blocks, wpc, chan, senders, cpc, merged, recvd, result, panic>>

\* tx.clone() and spawn of the worker for block b
SpawnWorker(b) ==
    /\ mpc = "spawning" /\ Len(blocks) < nblocks
    /\ blocks' = Append(blocks, b) /\ wpc' = Append(wpc, "spawned")
    /\ senders' = senders + 1
    /\ UNCHANGED <<N, P, T, mpc, nblocks, chan, cpc, merged, recvd, result, panic>>

SpawnDone ==
    /\ mpc = "spawning" /\ Len(blocks) = nblocks
    /\ mpc' = "drop"
    /\ UNCHANGED <<N, P, T, nblocks, blocks, wpc, chan, senders, cpc, merged, recvd, result, panic>>

DropTx ==
    /\ mpc = "drop"
    /\ senders' = IF NoDropTx THEN senders ELSE senders - 1
    /\ mpc' = "join"
    /\ UNCHANGED <<N, P, T, nblocks, blocks, wpc, chan, cpc, merged, recvd, result, panic>>

\* handle.join(): returns the collector's map once it has exited
Join ==
    /\ mpc = "join" /\ cpc = "exit"
    /\ result' = merged /\ mpc' = "done"
    /\ UNCHANGED <<N, P, T, nblocks, blocks, wpc, chan, senders, cpc, merged, recvd, panic>>

-----------------------------------------------------------------------------
(* workers *)
WStart(i) ==
    /\ i \in 1..Len(wpc) /\ wpc[i] = "spawned"
    /\ wpc' = [wpc EXCEPT ![i] = "started"]
    /\ UNCHANGED <<N, P, T, mpc, nblocks, blocks, chan, senders, cpc, merged, recvd, result, panic>>

\* compute the block, then tx.send(partial).unwrap(): Err (panic) iff the Receiver is gone
WSend(i) ==
    /\ i \in 1..Len(wpc) /\ wpc[i] = "started"
    /\ wpc' = [wpc EXCEPT ![i] = "sent"]
    /\ IF cpc = "exit" THEN panic' = TRUE /\ UNCHANGED chan
       ELSE chan' = Append(chan, i) /\ UNCHANGED panic
    /\ UNCHANGED <<N, P, T, mpc, nblocks, blocks, senders, cpc, merged, recvd, result>>

\* the closure returns: its Sender clone is dropped
WExit(i) ==
    /\ i \in 1..Len(wpc) /\ wpc[i] = "sent"
    /\ wpc' = [wpc EXCEPT ![i] = "gone"]
    /\ senders' = senders - 1
    /\ UNCHANGED <<N, P, T, mpc, nblocks, blocks, chan, cpc, merged, recvd, result, panic>>

-----------------------------------------------------------------------------
(* collector *)
CollStart ==
    /\ cpc = "spawned" /\ cpc' = "run"
    /\ UNCHANGED <<N, P, T, mpc, nblocks, blocks, wpc, chan, senders, merged, recvd, result, panic>>

\* rx.recv() returns Ok: pop the head, merge it
RecvOk ==
    /\ cpc = "run" /\ chan # <<>>
    /\ merged' = merged \cup Days(blocks[Head(chan)])
    /\ recvd' = Append(recvd, Head(chan))
    /\ chan' = Tail(chan)
    /\ UNCHANGED <<N, P, T, mpc, nblocks, blocks, wpc, senders, cpc, result, panic>>

\* rx.recv() returns Err: queue empty and every Sender dropped; the loop ends
RecvErr ==
    /\ cpc = "run" /\ chan = <<>> /\ senders = 0
    /\ cpc' = "exit"
    /\ UNCHANGED <<N, P, T, mpc, nblocks, blocks, wpc, chan, senders, merged, recvd, result, panic>>

-----------------------------------------------------------------------------
\* design level: partition() is the function of DateRangeDefs
MCPartition == PartitionCall(Len(PartitionFn(1, N, P)))
MCSpawn == Len(blocks) < nblocks /\ SpawnWorker(PartitionFn(1, N, P)[Len(blocks) + 1])

Worker(i) == WStart(i) \/ WSend(i) \/ WExit(i)
Main == Decide \/ SeqRun \/ SpawnColl \/ MCPartition \/ MCSpawn \/ SpawnDone \/ DropTx \/ Join
Collector == CollStart \/ RecvOk \/ RecvErr
Next == Main \/ Collector \/ \E i \in 1..MaxPll : Worker(i)

Spec == /\ Init /\ [][Next]_vars
        /\ WF_vars(Main) /\ WF_vars(Collector)
        /\ \A i \in 1..MaxPll : WF_vars(Worker(i))

-----------------------------------------------------------------------------
TypeOK ==
    /\ mpc \in {"decide", "seq", "spawn_coll", "partition", "spawning", "drop", "join", "done"}
    /\ cpc \in {"none", "spawned", "run", "exit"}
    /\ senders \in Nat /\ Len(wpc) = Len(blocks)
    /\ \A i \in 1..Len(wpc) : wpc[i] \in {"spawned", "started", "sent", "gone"}

NoPanic == ~panic

MergedInRange == merged \subseteq 1..N

\* THE PROPERTY: whatever the schedule, the returned map is the sequential one
ResultCorrect == mpc = "done" => result = 1..N

\* nothing received twice, nothing received that was not sent
NoDuplicate == \A i, j \in 1..Len(recvd) : i # j => recvd[i] # recvd[j]

SendersAccounted ==
    cpc # "none" =>
        senders >= Cardinality({i \in 1..Len(wpc) : wpc[i] # "gone"})

\* the collector stops only when nothing can arrive any more
ExitIsFinal == cpc = "exit" => chan = <<>> /\ \A i \in 1..Len(wpc) : wpc[i] = "gone"

ParallelOnlyWhenAllowed == mpc \notin {"decide", "seq", "done"} => ~Sequential

Terminates == <>(mpc = "done")
=============================================================================
