---------------------------- MODULE DateRangeDefs ----------------------------
(***************************************************************************)
(* PROPERTY level of C14: what any correct num_days / partition / range    *)
(* result must satisfy.  Pure definitions; used by the state machine in    *)
(* DateRange.tla (which must refine them) and by DateRangeTrace.tla (which *)
(* validates recorded calls of the real code against them).                *)
(***************************************************************************)
EXTENDS Integers, Sequences, FiniteSets

Min(a, b) == IF a < b THEN a ELSE b
Max(a, b) == IF a > b THEN a ELSE b
CeilDiv(a, b) == (a + b - 1) \div b


DaysOf(s, e) == s..e
NumDays(s, e) == Max(0, e - s + 1)

BlockDays(b) == b[1]..b[2]

\* bl is a sequence of <<first, last>> pairs
IsPartition(s, e, k, bl) ==
    /\ Len(bl) <= Max(k, 1)
    /\ (e >= s) => \A i \in 1..Len(bl) : bl[i][1] <= bl[i][2]
    /\ \A i \in 1..Len(bl) - 1 : bl[i][2] >= bl[i][1] => bl[i + 1][1] = bl[i][2] + 1
    /\ \A i, j \in 1..Len(bl) : i # j => BlockDays(bl[i]) \cap BlockDays(bl[j]) = {}
    /\ UNION {BlockDays(bl[i]) : i \in 1..Len(bl)} = DaysOf(s, e)

\* the partition of date.rs as a function (DateRange.tla checks its state machine computes this)
RECURSIVE BlocksFrom(_, _, _)
BlocksFrom(c, e, bs) == IF c > e THEN <<>>
                        ELSE << <<c, Min(c + bs - 1, e)>> >> \o BlocksFrom(c + bs, e, bs)
PartitionFn(s, e, k) == IF k < 2 THEN << <<s, e>> >>
                        ELSE BlocksFrom(s, e, CeilDiv(NumDays(s, e), k))

\* a range result summarised losslessly: n keys, smallest, largest, keys consecutive
IsRangeResult(s, e, n, first, last, contig) ==
    /\ n = NumDays(s, e)
    /\ n > 0 => first = s /\ last = e /\ contig

=============================================================================
