"""C03 - Fajr, Isha and Imsaak occur at the configured solar depression angle."""
from .solcommon import *


def run(tier, seed, replay=None):
    rep = Report("C03", tier, seed)
    sun_selfcheck(rep)
    args = ["--stride", 2] if tier == "thorough" else ["--years", 40, "--random", 2500]
    info, events = validate(rep, "C03", "c03", args, heap="10g" if tier == "thorough" else "6g")
    rep.distinct_nontrivial = len({(e["site"]["lat"], e["site"]["lon"], e["date"]["dn"], e["p"]["fa"], e["p"]["ia"]) for e in events
                                   if e["ev"] == "c03" and e["r"]["t"][1] >= 0})
    rep.rule = ("one c03 event = one public call at |lat|<=60 with one of the 6 angle methods or custom angles in [9,21] / Imsaak angle [0.5,3]; "
                "formula clause with the date's declination (0.042 degree) and instantaneous clause (0.515 degree) at Fajr, Isha, Imsaak; "
                "one c03m event = the same call with larger angles (monotonicity); non-trivial = Fajr reported")
    for e in (events[0], events[1]):
        rep.sample(e)
    rep.assumptions = ["declination of the date = at 0 h local civil time"]
    return rep.finish()
