"""C01 - Dhuhr is the instant of local apparent solar noon."""
from .solcommon import *


def run(tier, seed, replay=None):
    rep = Report("C01", tier, seed)
    sun_selfcheck(rep)
    calendar_and_ra_models(rep)
    args = ["--stride", 1] if tier == "thorough" else ["--years", 50, "--random", 3000]
    info, events = validate(rep, "C01", "c01", args, heap="10g" if tier == "thorough" else "6g")
    rep.distinct_nontrivial = len({(e["site"]["lat"], e["site"]["lon"], e["site"]["gmt"], e["date"]["dn"]) for e in events})
    rep.rule = ("one event = one public call (all latitudes incl. +-90, gmt on the half-hour grid within 6 h of lon/15, all 9 methods, "
                "elevations -420..8848); dates: quick = the equinox week, month/year ends, leap days, solstices of 50 seeded years + 3000 seeded "
                "random dates; thorough = EVERY calendar date 1600..2399 (292,194) + the strata; every event is non-trivial "
                "(the ephemeris is evaluated at the reported Dhuhr); distinct = distinct (site, zone, date)")
    for i in (0, 1, len(events) // 2):
        rep.sample(events[i])
    rep.assumptions = ["Sun.tla: Meeus low-precision solar theory in 32-bit fixed point (<= 3 s in the equation of time over 1600..2399); Delta-T ignored by both sides",
                       "tolerance 10 s + 3 s (oracle) + 1 s (truncated seconds)"]
    return rep.finish()
