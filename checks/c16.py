"""C16 - Qibla is the great-circle bearing to the Kaaba (decided with a weaker tolerance than stated, see level_note)."""
import os
from .common import *


def run(tier, seed, replay=None):
    rep = Report("C16", tier, seed)
    wd = workdir("C16")
    mc = tlc_must_pass("QiblaMC", "QiblaMC.cfg" if tier == "thorough" else "QiblaMCq.cfg", workers=3, timeout=2400)
    rep.add_tlc(mc)
    trace = os.path.join(wd, "trace.ndjson")
    info = harness(["c16", "--out", trace, "--seed", seed, "--tier", tier])
    n = info["events"]
    events = read_trace(trace)
    bad, st, tr, matched = validate_trace("QiblaTrace", "QiblaTrace.cfg", trace, n, heap="8g" if tier == "thorough" else "4g")
    rep.states += st
    rep.transitions += tr
    rep.traces = matched
    rep.evaluations = n
    rep.distinct_nontrivial = len({(e.get("lat"), e.get("lon"), e.get("kind", "call")) for e in events})
    rep.rule = ("qib events = Qibla::new at grid points (5 degrees quick / 1 degree thorough), seeded random points and strata (date line, the "
                "Kaaba's meridian and antimeridian, within 3 degrees of the Kaaba and its antipode), each with degrees / rotation / printed text; "
                "qpair events = symmetry relations at 10^-6 degree (elevation independence, mirror about the Kaaba's meridian, 0/180 on it, sign = side)")
    for i in (0, 5000, n - 1):
        rep.sample(events[min(i, n - 1)])
    rep.extra["rejected_events"] = len(bad)
    rep.assumptions = ["agreement with the vector definition is decided to about 0.001 degree + 3e-4 degree / sin(distance) (32-bit fixed point), not the 1e-6 degree the property states; "
                       "the symmetry relations are decided at 1e-6 degree",
                       "points within ~0.26 degree of the Kaaba or its antipode are exempt (property: 0.1 degree)"]
    for idx in bad:
        e = events[idx - 1]
        what = ("Qibla angle is not the great-circle bearing (vector test), is outside (-180,180], or label/text disagree with its sign and magnitude"
                if e["ev"] == "qib" else f"Qibla symmetry relation '{e.get('kind')}' violated at 1e-6 degree")
        rep.violation(what, e, {"event_index": idx})
    return rep.finish()
