"""C19 - the CLI reports what the library computes; saved parameters reproduce it."""
import os
import random
import re
from .common import *


def run(tier, seed, replay=None):
    rep = Report("C19", tier, seed)
    wd = workdir("C19")
    mc = tlc_must_pass("Cli", "CliMC.cfg", workers=1, timeout=600)
    rep.add_tlc(mc)
    # vacuity: opening the output files without truncation must violate AcceptComplete in the same model
    leg = tlc_must_fail("Cli", "CliLegacy.cfg", expect="AcceptComplete", workers=2)
    rep.add_tlc(leg)
    scen = []
    for p in mc.prints:
        p = p.strip('"').replace('\\"', '"')
        m = re.match(r'<<"SCEN", "(\w+)", "(\w+)", "(\w+)", "(\w+)", "(\w+)", "(\w+)", (TRUE|FALSE), (TRUE|FALSE), "(\w+)", (TRUE|FALSE)>>', p)
        if m:
            g = m.groups()
            scen.append([g[0], g[1], g[2], g[3], g[4], g[5], g[6] == "TRUE", g[7] == "TRUE", g[8], g[9] == "TRUE"])
    if len(scen) < 12000:
        raise ToolError(f"model emitted only {len(scen)} scenarios")
    rnd = random.Random(seed)
    accepted = [s for s in scen if s[8] == "done"]
    rejected = [s for s in scen if s[8] == "rejected"]
    # every accepted scenario (48) several times + a seeded sample of the rejected ones,
    # biased to exactly one bad field (the interesting boundary)
    one_bad = [s for s in rejected if sum(1 for i in range(5) if s[i] in ("oor", "bad")) + (s[5] in ("missing", "corrupt", "oorfile")) == 1]
    k_acc, k_one, k_rej = (6, 1500, 1500) if tier == "thorough" else (2, 160, 120)
    chosen = accepted * k_acc + rnd.sample(one_bad, min(k_one, len(one_bad))) + rnd.sample(rejected, min(k_rej, len(rejected)))
    rnd.shuffle(chosen)
    sfile = os.path.join(wd, "scen.json")
    with open(sfile, "w") as f:
        json.dump(chosen, f)
    cli = build_cli()
    trace = os.path.join(wd, "trace.ndjson")
    info = harness(["c19", "--out", trace, "--scen", sfile, "--bin", cli, "--dir", os.path.join(wd, "run"), "--seed", seed,
                    "--long_roundtrips", 6000 if tier == "thorough" else 600],
                   timeout=3000)
    n = info["events"]
    events = read_trace(trace)
    bad, st, tr, matched = validate_trace("CliTrace", "CliTrace.cfg", trace, n)
    rep.states += st
    rep.transitions += tr
    rep.traces = matched
    rep.evaluations = n
    rep.distinct_nontrivial = len({json.dumps(e["sc"], sort_keys=True) for e in events if e["ev"] == "cli"})
    rep.rule = ("the model's 12960 scenarios (field classes x -o/-p/-i x input-file states) are sampled: every accepted scenario several times with "
                "seeded concrete values (negative coordinates, 9 methods, 1..400-day and reversed ranges, custom parameter files) + rejected ones "
                "(biased to exactly one bad field); each is run against the binary built from /repo; distinct_nontrivial = distinct abstract scenarios run")
    rep.extra["scenarios_in_model"] = len(scen)
    rep.extra["roundtrips"] = info.get("roundtrips")
    rep.extra["accepted_runs"] = sum(1 for e in events if e["ev"] == "cli" and e["pred"] == "done")
    for e in events[:3]:
        rep.sample(e)
    rep.assumptions = ["Lib(cfg) is the library itself (prayer_times_dt_rng), decided by the other properties; clap's parsing is trusted for well-formed arguments",
                       "the listing is checked for: one header per date naming the Hijri date and the civil month/year, then seven 'Prayer: time|Invalid' lines with the library's own Display text"]
    for idx in bad:
        e = events[idx - 1]
        what = ("parameter-file round trip did not reproduce byte-identical output" if e["ev"] == "rt" else
                "without dates the tool did not compute exactly the machine's local date" if e["ev"] == "today" else
                "CLI run ended differently from the specification's behaviour for its scenario (exit status, files, terminal output) or its output is not the library's result")
        rep.violation(what, e, {"event_index": idx})
    return rep.finish()
