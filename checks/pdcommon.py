"""Shared driver for the day-pipeline properties (C05, C07-C12): design-level model checking of
PrayerDay / GoodDay / Rounding with the property's invariants, then validation of recorded public
calls against PrayerDayTrace."""
import os
from .common import *

IMPURE = "a result is not a function of the call's arguments: it differs from the same call made on a fresh thread (state carried between calls) or from the same date's entry of the range / parallel range API"

WHAT = {
    "c05": "schedule is not seven well-formed entries ordered Imsaak <= Fajr < Shurooq < Dhuhr < Asr < Maghrib < Isha around Dhuhr, or something is flagged extreme without a policy",
    "c07": "call did not return seven well-formed entries (panic, hang, wrong keys, no Dhuhr) in bounded time",
    "c08": "policy changed a time it does not name, changed/flagged a conventionally valid Fajr/Isha under an 'invalid' policy, or returned an unflagged time that differs from the conventional one",
    "c09": "nearest-good-day result is not the conventional Fajr/Isha (all six for 'all prayers') of the closest date on which both exist (earlier on ties), flagged extreme",
    "c10": "nearest-latitude / portion-of-night / minutes result deviates from its formula by more than 3 s, or a replaced value is not flagged",
    "c11": "rounded time is not the fixed function of the unrounded h:m:s for that mode and prayer, or validity/flag changed",
    "c12": "a parameter changed a time it is not documented to affect, or the documented effect is off by more than 1 s",
}


def write_cfg(name, module_consts, invariants, props=()):
    """Small per-property TLC configuration written into work/ and passed by absolute path."""
    path = os.path.join(WORK, "cfg", name)
    os.makedirs(os.path.dirname(path), exist_ok=True)
    with open(path, "w") as f:
        f.write("SPECIFICATION Spec\nCONSTANTS\n")
        for k, v in module_consts.items():
            f.write(f"  {k} = {v}\n")
        if invariants:
            f.write("INVARIANTS " + " ".join(invariants) + "\n")
        for p in props:
            f.write(f"PROPERTY {p}\n")
        f.write("CHECK_DEADLOCK FALSE\n")
    return path


def prayerday_mc(rep, name, invariants, roundings="{0, 2}", fajr_offsets="{0, 90000}", props=(), workers=10, neg="FALSE"):
    cfg = write_cfg(name + ".cfg", {"LegacyUnwrap": "FALSE", "LegacyImsaak": "FALSE", "LegacyImsaakFlag": "FALSE", "LegacyLateInt": "FALSE", "LegacyIntFlag": "FALSE", "Roundings": roundings, "FajrOffsets": fajr_offsets, "NegOffsets": neg},
                    invariants, props)
    mc = tlc_must_pass("PrayerDay", cfg, workers=workers, coverage=True, timeout=2400, heap="8g")
    rep.add_tlc(mc)
    rep.extra["action_coverage"] = {k: v[1] for k, v in mc.coverage.items()}
    for act in ("GetHoursA", "PreIntervalA", "PolicyA", "IntervalA", "TimesA", "Imsaak1A", "Imsaak2A"):
        if act in mc.coverage and mc.coverage[act][1] == 0:
            raise ToolError(f"vacuous model: action {act} never taken")
    return mc


def validate_events(rep, pid, gen_args, what_key, heap="6g", max_violations=12):
    wd = workdir(pid)
    trace = os.path.join(wd, "trace.ndjson")
    info = harness([what_key, "--out", trace, "--seed", rep.seed] + gen_args, timeout=3000)
    n = info["events"]
    if n == 0:
        raise ToolError("harness produced no events")
    events = read_trace(trace)
    # findings listed in known_findings.json are modelled as named actions of the trace spec and enabled from here
    env = {}
    for k in rep.known.get("known", []):
        if k.get("property") == pid and k.get("id"):
            env["KNOWN_" + k["id"]] = "1"
    # large traces are validated in chunks (TLC holds the deserialised trace in memory); all events are stateless
    CH = 100000
    kh = {}
    if n > CH:
        bad, st, tr, matched = [], 0, 0, 0
        with open(trace) as f:
            lines = f.readlines()
        for c0 in range(0, n, CH):
            part = trace + f".part{c0 // CH}"
            with open(part, "w") as f:
                f.writelines(lines[c0:c0 + CH])
            m = min(CH, n - c0)
            b, s1, t1, m1 = validate_trace("PrayerDayTrace", "PrayerDayTrace.cfg", part, m, heap=heap, env=env,
                                           max_violations=max_violations)
            os.remove(part)
            for fid, idxs in getattr(validate_trace, "known_hits", {}).items():
                kh.setdefault(fid, set()).update(c0 + i for i in idxs)
            bad += [c0 + i for i in b]
            st, tr, matched = st + s1, tr + t1, matched + m1
            if len(bad) >= max_violations:
                break
        del lines
    else:
        bad, st, tr, matched = validate_trace("PrayerDayTrace", "PrayerDayTrace.cfg", trace, n, heap=heap, env=env,
                                              max_violations=max_violations)
        kh = getattr(validate_trace, "known_hits", {})
    for fid, idxs in kh.items():
        k = [x for x in rep.known.get("known", []) if x.get("id") == fid]
        if k:
            rep.known_hits += len(idxs)
            rep.extra.setdefault("known_finding_events", {})[fid] = len(idxs)
            log(f"[known] finding {fid} matched {len(idxs)} event(s) in this run")
    rep.states += st
    rep.transitions += tr
    rep.traces += matched
    rep.evaluations += n
    if "session" in info:
        rep.extra["session_effects"] = info["session"]
    for idx in bad:
        e = events[idx - 1]
        rep.violation(IMPURE if e.get("ev") == "impure" else ("a call did not return within 20 s" if e.get("ev") == "hang" else WHAT[what_key]),
                      e, {"event_index": idx})
    return info, [e for e in events if e.get("ev") not in ("impure", "hang")]
