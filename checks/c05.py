"""C05 - the daily schedule is complete and chronologically ordered."""
from .pdcommon import *


def run(tier, seed, replay=None):
    rep = Report("C05", tier, seed)
    prayerday_mc(rep, "C05", ["StagedIsPure", "SevenEntries", "NoPolicyNoFlags"], fajr_offsets="{0}", props=["Finishes"])
    n = 200000 if tier == "thorough" else 6000
    info, events = validate_events(rep, "C05", ["--n", n], "c05")
    keyset = set()
    for e in events:
        nontrivial = all(t >= 0 for t in e["r"]["t"])
        if nontrivial:
            keyset.add((e["site"]["lat"], e["site"]["lon"], e["date"]["dn"], e["p"]["meth"], e["p"]["fa"], e["p"]["rnd"]))
    rep.distinct_nontrivial = len(keyset)
    rep.rule = ("one event = one public call (|lat|<=60, 8 named methods + custom angles in [9,21], all rounding modes, "
                "gmt within 3 h of the meridian, weather absent/corners/interior); non-trivial = all seven entries exist so the whole order chain is checked; "
                "distinct = distinct (site, date, method/angles, rounding)")
    for i in (0, 1, len(events) // 2):
        rep.sample(events[i])
    rep.assumptions = ["order is measured as signed clock distance from that day's Dhuhr in (-12 h, 12 h]"]
    return rep.finish()
