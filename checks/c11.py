"""C11 - rounding follows the selected policy exactly."""
from .pdcommon import *


def run(tier, seed, replay=None):
    rep = Report("C11", tier, seed)
    mc = tlc_must_pass("Rounding", "RoundingMC.cfg" if tier == "thorough" else "RoundingMCq.cfg", workers=10, timeout=1800, heap="8g")
    rep.add_tlc(mc)
    # unbounded: the same lemma for EVERY integer number of unrounded seconds (any offset), by induction over the wrap loop
    apalache_inductive(rep, "RoundingInd")
    if tier == "thorough":
        args = ["--stride", 1, "--sites", 2]
    else:
        args = ["--stride", 9, "--sites", 1]
    info, events = validate_events(rep, "C11", args, "c11", heap="12g" if tier == "thorough" else "6g")
    rep.distinct_nontrivial = info.get("distinct_prayer_seconds", 0)
    rep.exhaustive = tier == "thorough"
    rep.rule = ("fractional-minute offsets k/60 (k = 0..86399, stride 1 in thorough, 9 in quick, plus all 60 seconds of boundary minutes "
                "00:00, 00:59, 12:29, 23:59) sweep every prayer through the seconds of the day, with +-1500 min offsets forcing negative and >= 24 h "
                "hours; each mode's output must equal RoundClock applied to the unrounded output; distinct_nontrivial = distinct (prayer, unrounded second) pairs seen")
    for i in (0, len(events) // 2):
        rep.sample(events[i])
    return rep.finish()
