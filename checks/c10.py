"""C10 - nearest-latitude and portion-of-night fallbacks follow their stated formulas."""
from .pdcommon import *


def run(tier, seed, replay=None):
    rep = Report("C10", tier, seed)
    prayerday_mc(rep, "C10", ["StagedIsPure", "IntervalKept", "UnflaggedIsConventional"], roundings="{0}", fajr_offsets="{0, 90000}")
    n = 200000 if tier == "thorough" else 10000
    info, events = validate_events(rep, "C10", ["--n", n], "c10", heap="10g" if tier == "thorough" else "6g")
    rep.distinct_nontrivial = len({(e["site"]["lat"], e["date"]["dn"], e["p"]["pol"], e["p"]["meth"], e["p"]["nl"]) for e in events if any(e["b"]["x"])})
    rep.rule = ("one event = raw conventional results at the site (and at the substitute latitude) plus the call under one of the 10 policies "
                "C10 names; TLC recomputes the formula in integer seconds (tolerance 3 s); non-trivial = the policy replaced something")
    rep.extra["policy_fired"] = info.get("policy_fired")
    for i in (0, len(events) // 2, len(events) - 1):
        rep.sample(events[i])
    rep.assumptions = ["|lat| <= 60, natural time zone, Shurooq < Dhuhr < Maghrib inside the civil day (the property's precondition)"]
    return rep.finish()
