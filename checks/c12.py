"""C12 - each parameter affects only the times it is documented to affect."""
from .pdcommon import *


def run(tier, seed, replay=None):
    rep = Report("C12", tier, seed)
    prayerday_mc(rep, "C12", ["StagedIsPure", "ImsaakFollowsExtremeFajr", "ImsaakInterval", "OffsetFrame", "OffsetShifts", "IntervalKept"],
                 roundings="{0}", fajr_offsets="{0, 90000}")
    # vacuity: the pre-fix get_imsaak (D7) must violate ImsaakFollowsExtremeFajr in the same model
    cfg = write_cfg("C12legacy.cfg", {"LegacyUnwrap": "FALSE", "LegacyImsaak": "TRUE", "LegacyImsaakFlag": "FALSE", "LegacyLateInt": "FALSE", "LegacyIntFlag": "FALSE", "Roundings": "{0}", "FajrOffsets": "{0}", "NegOffsets": "FALSE"},
                    ["ImsaakFollowsExtremeFajr"])
    leg = tlc_must_fail("PrayerDay", cfg, expect="ImsaakFollowsExtremeFajr", workers=6, heap="6g")
    rep.add_tlc(leg)
    n = 400000 if tier == "thorough" else 18000
    info, events = validate_events(rep, "C12", ["--n", n], "c12", heap="12g" if tier == "thorough" else "6g")
    rep.distinct_nontrivial = len({(e["kind"], e["key"], e["d"], e["site"]["lat"], e["date"]["dn"], e["p"]["meth"]) for e in events
                                   if e["a"] != e["b"] or e["kind"] in ("defw",)})
    rep.rule = ("one event = two public calls differing in exactly one parameter (an offset key, an interval, a +-1 degree angle, the school, weather) "
                "or a policy run (Imsaak vs extreme Fajr); non-trivial = the change had an effect (or must have none: default weather)")
    kinds = {}
    for e in events:
        kinds[e["kind"]] = kinds.get(e["kind"], 0) + 1
    rep.extra["events_per_kind"] = kinds
    for i in (0, 2, 10):
        rep.sample(events[i])
    rep.assumptions = ["frame conditions are checked under policy None; the Imsaak offset key is held to 'no effect' (Imsaak follows Fajr's offset)"]
    return rep.finish()
