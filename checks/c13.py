"""C13 - prayer times vary smoothly from one day to the next."""
from .solcommon import *


def run(tier, seed, replay=None):
    rep = Report("C13", tier, seed)
    sun_selfcheck(rep)
    calendar_and_ra_models(rep)
    args = ["--sites", 4, "--windows", 60, "--triples", 2000] if tier == "thorough" else ["--windows", 40, "--triples", 3000]
    info, events = validate(rep, "C13", "c13", args, heap="12g" if tier == "thorough" else "6g", stateful=True, timeout=6000)
    rep.traces = info.get("histories", 0) - rep.violations
    rep.distinct_nontrivial = sum(1 for e in events if e["ev"] == "hday") - 2 * info.get("histories", 0)
    rep.rule = ("a history = consecutive calendar dates at one site (quick: 22-day windows around the March equinox, February/March and "
                "the year end for 40 seeded site-years + 3000 random triples; thorough: additionally every consecutive date 1600..2399 at 4 sites); "
                "TLC carries the two previous days as state and checks first and second differences; distinct_nontrivial = number of triples checked")
    for e in events[:4]:
        rep.sample(e)
    rep.assumptions = ["bounds are the property's + 2 s for three truncated times; entries compared as circular clock differences"]
    return rep.finish()
