"""C07 - computing prayer times never panics or hangs on valid input."""
from .pdcommon import *


def run(tier, seed, replay=None):
    rep = Report("C07", tier, seed)
    full = tier == "thorough"
    prayerday_mc(rep, "C07", ["NoPanic", "SevenEntries"], roundings="{0, 1, 2, 3}" if full else "{0, 3}",
                 fajr_offsets="{0, 90000}", neg="TRUE", props=["Finishes"])
    # vacuity: the pre-fix unwrap (D2) must be reachable as Panic in the same model
    cfg = write_cfg("C07legacy.cfg", {"LegacyUnwrap": "TRUE", "LegacyImsaak": "FALSE", "LegacyImsaakFlag": "FALSE", "LegacyLateInt": "TRUE", "LegacyIntFlag": "TRUE", "Roundings": "{0}", "FajrOffsets": "{0}", "NegOffsets": "FALSE"}, ["NoPanic"])
    leg = tlc_must_fail("PrayerDay", cfg, expect="NoPanic", workers=6, heap="6g")
    rep.add_tlc(leg)
    gd = tlc_must_pass("GoodDay", "GoodDayMC.cfg", workers=6, timeout=900)   # the search loop terminates
    rep.add_tlc(gd)
    n = 400000 if full else 15000
    info, events = validate_events(rep, "C07", ["--n", n], "c07", heap="10g" if full else "6g")
    rep.distinct_nontrivial = len({(e["site"]["lat"], e["date"]["dn"], e["p"]["pol"], e["p"]["meth"], e["p"]["fi"], e["p"]["ii"]) for e in events
                                   if any(t < 0 for t in e["r"]["t"]) or e["out"] != "ret7"})
    rep.rule = ("one event = one guarded public call over the whole input product (lat incl. +-90, +-89.99, +-66.57; 9 methods x 15 policies x "
                "4 roundings; angles 0..25, intervals 0..180 min, offsets +-1500 min, weather corners); non-trivial = some entry is Invalid "
                "(the paths where the policy / interval code meets missing hours); distinct = distinct (lat, date, policy, method, intervals)")
    rep.extra["slowest_call_ms"] = info.get("slowest_ms")
    rep.extra["panics_observed"] = info.get("panics")
    for i in (0, 1, len(events) // 2):
        rep.sample(events[i])
    rep.assumptions = ["'bounded time' is decided by a 20 s per-call limit (slowest legitimate call observed is logged)"]
    return rep.finish()
