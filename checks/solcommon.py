"""Shared driver for the solar properties (C01-C04, C06, C13, C20): the environment specification
Sun.tla is exercised by TLC through SolarTrace on recorded public calls; FixedPoint's and Calendar's
ASSUMEs (table shape, sin^2+cos^2, addition formula, epoch dates) are re-checked on every TLC start."""
import os
from .common import *

WHAT = {
    "hang": "a call did not return within 20 s",
    "impure": "a result is not a function of the call's arguments: it differs from the same call made on a fresh thread (state carried between calls) or from the same date's entry of the range / parallel range API",
    "c01": "Dhuhr is missing or the independent ephemeris puts the Sun's hour angle at the reported Dhuhr more than 14 s (10 + 3 + 1) from the meridian",
    "c02": "Sun's centre is not at -0.833 +- 0.065 degree at the reported Shurooq/Maghrib, or the time is on the wrong side of noon",
    "c02w": "weather moved Shurooq/Maghrib by a minute or more, or moved a time not derived from them",
    "c03": "Sun is not at the configured depression at the reported Fajr/Isha/Imsaak (0.042 degree with the date's declination, 0.515 degree instantaneous), or wrong side of noon",
    "c03m": "a larger twilight angle gave a later Fajr/Imsaak or an earlier Isha",
    "c04": "Asr altitude is not arccot(k + tan|lat - dec|) within 0.042 degree, or Asr is not strictly between Dhuhr and Maghrib",
    "c04s": "Hanafi Asr is not strictly later than Shafi Asr, or the school changed another time",
    "c06": "a time is reported for an event the Sun never reaches that date, or withheld for one it surely reaches",
    "hday": "day-to-day change of a time reaches 4 minutes or its second difference exceeds the bound (calendar- or wrap-induced jump)",
    "h0": "history start",
    "c20": "a zone / meridian shift moved a time by more than 12 s (10 + 2) from the expected shift, or changed validity",
}


def sun_selfcheck(rep):
    """design level: load Sun/FixedPoint/Calendar (all ASSUMEs evaluated) and evaluate the ephemeris on a grid"""
    r = tlc_must_pass("SunMC", "SunMC.cfg" if rep.tier == "thorough" else "SunMCq.cfg", workers=6, timeout=1200)
    rep.add_tlc(r)
    return r


def calendar_and_ra_models(rep):
    """design level: the Julian-day formula is the civil day count plus a constant for every date 1583..2399 (no calendar-
    induced jumps) and the RA unwrapping yields delta1 = 2 rate, delta2 = 0 wherever the 360 -> 0 wrap falls; both with a
    Legacy* switch that TLC must refute (D1; a seeded century slip)"""
    rep.add_tlc(tlc_must_pass("JulianDay", "JulianDayMC.cfg", workers=2, timeout=900))
    rep.add_tlc(tlc_must_fail("JulianDay", "JulianDayLegacy.cfg", expect="MatchesDayCount", workers=2))
    rep.add_tlc(tlc_must_pass("RaInterp", "RaInterpMC.cfg", workers=4, timeout=900))
    rep.add_tlc(tlc_must_fail("RaInterp", "RaInterpLegacy.cfg", expect="FirstDifference", workers=2))


def validate(rep, pid, sub, gen_args, heap="6g", max_violations=12, stateful=False, timeout=3000):
    wd = workdir(pid)
    trace = os.path.join(wd, f"trace_{sub}.ndjson")
    info = harness([sub, "--out", trace, "--seed", rep.seed, "--tier", rep.tier] + gen_args, timeout=timeout)
    n = info["events"]
    if n == 0:
        raise ToolError("harness produced no events")
    events = read_trace(trace)
    resync = None
    if stateful:
        starts = [i + 1 for i, e in enumerate(events) if e["ev"] == "h0"]

        def resync(idx):
            nxt = [s for s in starts if s > idx]
            return nxt[0] if nxt else n + 1
    # findings listed in known_findings.json are modelled as named actions of the trace spec and enabled from here
    env = {}
    for k in rep.known.get("known", []):
        if k.get("property") == pid and k.get("id"):
            env["KNOWN_" + k["id"]] = "1"
    # large stateless traces are validated in chunks (TLC holds the deserialised trace in memory)
    CH = 60000
    kh = {}
    if n > CH and not stateful:
        bad, st, tr, matched = [], 0, 0, 0
        with open(trace) as f:
            lines = f.readlines()
        for c0 in range(0, n, CH):
            part = trace + f".part{c0 // CH}"
            with open(part, "w") as f:
                f.writelines(lines[c0:c0 + CH])
            m = min(CH, n - c0)
            b, s1, t1, m1 = validate_trace("SolarTrace", "SolarTrace.cfg", part, m, heap=heap, env=env,
                                           max_violations=max_violations, timeout=timeout)
            os.remove(part)
            for fid, idxs in getattr(validate_trace, "known_hits", {}).items():
                kh.setdefault(fid, set()).update(c0 + i for i in idxs)
            bad += [c0 + i for i in b]
            st, tr, matched = st + s1, tr + t1, matched + m1
            if len(bad) >= max_violations:
                break
    else:
        bad, st, tr, matched = validate_trace("SolarTrace", "SolarTrace.cfg", trace, n, heap=heap, env=env,
                                              max_violations=max_violations, resync=resync, timeout=timeout)
        kh = getattr(validate_trace, "known_hits", {})
    for fid, idxs in kh.items():
        k = [x for x in rep.known.get("known", []) if x.get("id") == fid]
        if k:
            rep.known_hits += len(idxs)
            rep.extra.setdefault("known_finding_events", {})[fid] = len(idxs)
            log(f"[known] finding {fid} matched {len(idxs)} event(s) in this run")
    rep.states += st
    rep.transitions += tr
    rep.traces += matched
    rep.evaluations += n
    if "session" in info:
        rep.extra["session_effects"] = info["session"]
    for idx in bad:
        e = events[idx - 1]
        extra = {"event_index": idx}
        if stateful:
            s0 = max([s for s in starts if s <= idx] or [1])
            extra["history_start"] = events[s0 - 1]
            extra["previous_days"] = events[max(s0, idx - 3):idx - 1]
        if e["ev"] == "c20":
            # derived fields used only to match known_findings.json entries (never to judge)
            d = e["d"] if e["kind"] == "gmt" else 0
            dev = 0
            for p in range(7):
                ta, tb = e["a"]["t"][p], e["b"]["t"][p]
                if ta < 0 or tb < 0:
                    dev = max(dev, 0 if ta == tb else 99999)
                    continue
                if min(ta, tb, ta + d) < 30 or max(ta, tb, ta + d) > 86370:
                    continue
                dev = max(dev, abs(((tb - (ta + d)) + 43200) % 86400 - 43200))
            e = dict(e, absd=abs(e["d"]), dev=dev, abslat=abs(e["site"]["lat"]))
        rep.violation(WHAT.get(e["ev"], "unmatched event"), e, extra)
    return info, [e for e in events if e.get("ev") not in ("impure", "hang")]
