"""C06 - a time is reported Invalid exactly when the solar event does not occur."""
from .solcommon import *


def run(tier, seed, replay=None):
    rep = Report("C06", tier, seed)
    sun_selfcheck(rep)
    n = 150000 if tier == "thorough" else 4000
    info, events = validate(rep, "C06", "c06", ["--n", n], heap="10g" if tier == "thorough" else "6g")
    rep.distinct_nontrivial = len({(e["site"]["lat"], e["date"]["dn"], e["p"]["fa"], e["p"]["ia"]) for e in events if any(t < 0 for t in e["r"]["t"])})
    rep.extra["calls_with_invalid_entries"] = info.get("with_invalid")
    rep.rule = ("one event = one public call (policy None) at latitudes up to +-89.5, angle methods and custom angles, dates stratified around the "
                "onset/end of missing twilight and polar day/night for the latitude; TLC derives the Sun's extreme altitudes of the date from the "
                "declination at 0 h and 24 h local and exempts cases within 0.065 degree of the defining altitude; non-trivial = some entry Invalid")
    for e in events[:3]:
        rep.sample(e)
    rep.assumptions = ["exemption band 0.05 degree (property) + 0.015 degree (oracle), applied at both ends of the day"]
    return rep.finish()
