"""C18 - validated quantities hold only in-range values, however constructed (DESIGN §5 C18)."""
import os
import re
from .common import *


def run(tier, seed, replay=None):
    rep = Report("C18", tier, seed)
    wd = workdir("C18")
    mc = tlc_must_pass("Bounded", "BoundedMC.cfg", workers=1, timeout=300)
    rep.add_tlc(mc)
    leg = tlc_must_fail("Bounded", "BoundedLegacy.cfg", expect="OnlyInRange", workers=1)
    rep.add_tlc(leg)
    # spec -> impl: every cell of the model's decision table is concretised and executed
    cells = []
    for p in mc.prints:
        m = re.match(r'<<"CELL", (\d+), "(\w+)", "(\w+)", "(\w+)">>', p)
        if m:
            cells.append([int(m.group(1)), m.group(2), m.group(3), m.group(4)])
    cells = sorted(set(map(tuple, cells)))
    if len(cells) < 200:
        raise ToolError(f"only {len(cells)} cells emitted by the model")
    cfile = os.path.join(wd, "cells.json")
    with open(cfile, "w") as f:
        json.dump(cells, f)
    trace = os.path.join(wd, "trace.ndjson")
    info = harness(["c18", "--out", trace, "--cells", cfile, "--seed", seed, "--tier", tier])
    n = info["events"]
    events = read_trace(trace)
    bad, st, tr, matched = validate_trace("BoundedTrace", "BoundedTrace.cfg", trace, n, max_violations=15)
    rep.states += st
    rep.transitions += tr
    rep.traces = matched
    rep.evaluations = n
    covered = {(e["ty"], e["ocls"], e["route"]) for e in events if e["ocls"] not in ("rand", "ws")}
    missing = [c for c in cells if (c[0], c[1], c[2]) not in covered]
    rep.distinct_nontrivial = len({(e["ty"], e["route"], e["neg"], tuple(e["mag"]), e["src"]) for e in events})
    rep.rule = ("one event per construction attempt; distinct = distinct (type, route, bit pattern, source text); every one "
                "is non-trivial (accept/reject is decided by TLC from the bits); all 255 cells of the model's table "
                "(6 types x 12 value classes x 4 routes where offered) are realised, plus seeded random bit patterns")
    rep.extra["model_cells"] = len(cells)
    rep.extra["cells_realised"] = len(covered)
    rep.extra["accepted"] = sum(1 for e in events if e["out"] == "accept")
    rep.extra["rejected"] = sum(1 for e in events if e["out"] == "reject")
    for i in (0, 40, 400, n // 2, n - 1):
        rep.sample(events[min(i, n - 1)])
    rep.assumptions = ["Rust's f64 Display/Debug/LowerExp and serde_json number printing round-trip exactly (they are used to build the text/JSON inputs from the intended bits)",
                       "IEEE-754 ordering of finite doubles = ordering of sign/magnitude keys (BoundedDefs.tla)"]
    tn = ["", "Gmt", "Latitude", "Longitude", "Elevation", "Pressure", "Temperature"]
    for idx in bad:
        e = events[idx - 1]
        what = f"{tn[e['ty']]} via {e['route']} route: outcome {e['out']} for {e['cls']} input {e['src']!r} contradicts 'exists iff finite and in range' (or read-back differs)"
        rep.violation(what, e, {"event_index": idx})
    rc = rep.finish()
    if missing and rc == 0:
        raise ToolError(f"cells not realised by the harness: {missing[:5]}")
    return rc
