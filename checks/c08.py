"""C08 - fallback policies change only what they name and flag exactly what they replace."""
from .pdcommon import *


def run(tier, seed, replay=None):
    rep = Report("C08", tier, seed)
    prayerday_mc(rep, "C08", ["StagedIsPure", "FajrIshaOnly", "InvalidKeepsValid", "IdentityWhenAllValid", "UnflaggedIsConventional"],
                 roundings="{0, 2}", fajr_offsets="{0, 90000}")
    # vacuity: the pre-fix unflagged interval-fallback Imsaak (D8) must violate the flag clause in the same model
    cfg = write_cfg("C08legacy.cfg", {"LegacyUnwrap": "FALSE", "LegacyImsaak": "FALSE", "LegacyImsaakFlag": "TRUE", "LegacyLateInt": "FALSE", "LegacyIntFlag": "FALSE", "Roundings": "{0}",
                                      "FajrOffsets": "{0}", "NegOffsets": "FALSE"}, ["UnflaggedIsConventional"])
    leg = tlc_must_fail("PrayerDay", cfg, expect="UnflaggedIsConventional", workers=6, heap="6g")
    rep.add_tlc(leg)
    # vacuity: the pre-fix order of adj_for_ext_lat (D9: intervals applied only after the policy, formerly the known
    # findings F2 / F3) must violate the 'only if invalid' clauses in the same model
    cfg = write_cfg("C08legacyD9.cfg", {"LegacyUnwrap": "FALSE", "LegacyImsaak": "FALSE", "LegacyImsaakFlag": "FALSE", "LegacyLateInt": "TRUE", "LegacyIntFlag": "FALSE",
                                        "Roundings": "{0}", "FajrOffsets": "{0}", "NegOffsets": "FALSE"}, ["InvalidKeepsValid"])
    rep.add_tlc(tlc_must_fail("PrayerDay", cfg, expect="InvalidKeepsValid", workers=6, heap="6g"))
    cfg = write_cfg("C08legacyD9b.cfg", {"LegacyUnwrap": "FALSE", "LegacyImsaak": "FALSE", "LegacyImsaakFlag": "FALSE", "LegacyLateInt": "TRUE", "LegacyIntFlag": "FALSE",
                                         "Roundings": "{0}", "FajrOffsets": "{0}", "NegOffsets": "FALSE"}, ["IdentityWhenAllValid"])
    rep.add_tlc(tlc_must_fail("PrayerDay", cfg, expect="IdentityWhenAllValid", workers=6, heap="6g"))
    # vacuity: the pre-fix flag rule of adj_for_int (D10) must violate the flag clause
    cfg = write_cfg("C08legacyD10.cfg", {"LegacyUnwrap": "FALSE", "LegacyImsaak": "FALSE", "LegacyImsaakFlag": "FALSE", "LegacyLateInt": "FALSE",
                                         "LegacyIntFlag": "TRUE", "Roundings": "{0}", "FajrOffsets": "{0}", "NegOffsets": "FALSE"}, ["UnflaggedIsConventional"])
    rep.add_tlc(tlc_must_fail("PrayerDay", cfg, expect="UnflaggedIsConventional", workers=6, heap="6g"))
    # recorded events of the pre-fix code of both shapes (fixtures/) must be rejected by the trace specification
    fx = os.path.join(VERIF, "fixtures", "c08_known_f2_f3.ndjson")
    nfx = sum(1 for _ in open(fx))
    bad0, _, _, _ = validate_trace("PrayerDayTrace", "PrayerDayTrace.cfg", fx, nfx, max_violations=nfx + 1, heap="2g")
    if len(bad0) != nfx:
        raise ToolError(f"D9 fixture: only {len(bad0)} of {nfx} recorded pre-fix events are rejected by the trace specification")
    rep.extra["d9_fixture"] = {"events": nfx, "rejected": len(bad0)}
    n = 300000 if tier == "thorough" else 15000
    info, events = validate_events(rep, "C08", ["--n", n], "c08", heap="10g" if tier == "thorough" else "6g")
    cells = set()
    for e in events:
        a, b = e["a"], e["b"]
        if any(b["x"]) or any(t < 0 for t in a["t"]):
            cells.add((e["p"]["pol"], tuple(t >= 0 for t in a["t"]), tuple(b["x"]), e["p"]["meth"]))
    rep.distinct_nontrivial = len(cells)
    rep.rule = ("one event = a policy run paired with the policy-None run of the same input (exact comparison); non-trivial = a time is missing "
                "conventionally or the policy flagged something; distinct = distinct (policy, conventional validity pattern, flag pattern, method)")
    for i in (0, len(events) // 3, len(events) // 2):
        rep.sample(events[i])
    rep.assumptions = ["interval-consuming policies (half-of-night, minutes-from-maghrib 'invalid') are run with angle-based methods only, as the property quantifies",
                       "substitute latitudes anywhere in [-90, 90] (one sixth of the calls beyond +-60, plus a stratum where the substitute latitude lies in the band in which the Sun sets but does not reach 0 degrees)"]
    return rep.finish()
