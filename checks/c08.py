"""C08 - fallback policies change only what they name and flag exactly what they replace."""
from .pdcommon import *


def run(tier, seed, replay=None):
    rep = Report("C08", tier, seed)
    prayerday_mc(rep, "C08", ["StagedIsPure", "FajrIshaOnly", "InvalidKeepsValid", "IdentityWhenAllValid", "UnflaggedIsConventional"],
                 roundings="{0, 2}", fajr_offsets="{0, 90000}")
    # vacuity: the pre-fix unflagged interval-fallback Imsaak (D8) must violate the flag clause in the same model
    cfg = write_cfg("C08legacy.cfg", {"LegacyUnwrap": "FALSE", "LegacyImsaak": "FALSE", "LegacyImsaakFlag": "TRUE", "Roundings": "{0}",
                                      "FajrOffsets": "{0}", "NegOffsets": "FALSE"}, ["UnflaggedIsConventional"])
    leg = tlc_must_fail("PrayerDay", cfg, expect="UnflaggedIsConventional", workers=6, heap="6g")
    rep.add_tlc(leg)
    # the known findings F2 / F3 are named actions of the trace spec; a recorded fixture (2 F2-shaped and 2 F3-shaped
    # events of the real code) must be rejected while they are disabled and accepted, every use printed, while enabled
    fx = os.path.join(VERIF, "fixtures", "c08_known_f2_f3.ndjson")
    nfx = sum(1 for _ in open(fx))
    bad0, _, _, _ = validate_trace("PrayerDayTrace", "PrayerDayTrace.cfg", fx, nfx, max_violations=nfx + 1, heap="2g")
    if len(bad0) != nfx:
        raise ToolError(f"known-finding fixture: {len(bad0)} of {nfx} events rejected with the findings disabled (all must be)")
    bad1, _, _, _ = validate_trace("PrayerDayTrace", "PrayerDayTrace.cfg", fx, nfx, heap="2g", env={"KNOWN_F2": "1", "KNOWN_F3": "1"})
    hits = sum(len(v) for v in validate_trace.known_hits.values())
    if bad1 or hits != nfx:
        raise ToolError(f"known-finding fixture: {len(bad1)} rejected / {hits} announced of {nfx} with the findings enabled")
    rep.extra["known_finding_fixture"] = {"events": nfx, "rejected_when_disabled": len(bad0), "accepted_when_enabled": hits}
    n = 300000 if tier == "thorough" else 15000
    info, events = validate_events(rep, "C08", ["--n", n], "c08", heap="10g" if tier == "thorough" else "6g")
    cells = set()
    for e in events:
        a, b = e["a"], e["b"]
        if any(b["x"]) or any(t < 0 for t in a["t"]):
            cells.add((e["p"]["pol"], tuple(t >= 0 for t in a["t"]), tuple(b["x"]), e["p"]["meth"]))
    rep.distinct_nontrivial = len(cells)
    rep.rule = ("one event = a policy run paired with the policy-None run of the same input (exact comparison); non-trivial = a time is missing "
                "conventionally or the policy flagged something; distinct = distinct (policy, conventional validity pattern, flag pattern, method)")
    for i in (0, len(events) // 3, len(events) // 2):
        rep.sample(events[i])
    rep.assumptions = ["interval-consuming policies (half-of-night, minutes-from-maghrib 'invalid') are run with angle-based methods only, as the property quantifies",
                       "substitute latitudes within [-60, 60]"]
    return rep.finish()
