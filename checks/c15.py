"""C15 - parallel range computation equals the sequential one under every schedule (DESIGN §5 C15)."""
import os
from .common import *


def run(tier, seed, replay=None):
    rep = Report("C15", tier, seed)
    wd = workdir("C15")
    # design level: all interleavings of main / collector / workers for small ranges, incl. termination
    mc = tlc_must_pass("ParRange", "ParRangeMC.cfg" if tier == "thorough" else "ParRangeMCq.cfg",
                       workers=8, coverage=True, timeout=1500)
    rep.add_tlc(mc)
    # vacuity: without the main thread's drop(tx) the model must not terminate
    nd = tlc_must_fail("ParRange", "ParRangeNoDrop.cfg", expect="temporal", workers=4)
    rep.add_tlc(nd)
    # impl -> spec: hooked runs under perturbed schedules
    trace = os.path.join(wd, "trace.ndjson")
    info = harness(["c15", "--out", trace, "--seed", seed, "--tier", tier], timeout=3000)
    n = info["events"]
    events = read_trace(trace)
    resets = [i + 1 for i, e in enumerate(events) if e["ev"] == "reset"]

    def resync(idx):
        nxt = [r for r in resets if r > idx]
        return nxt[0] if nxt else n + 1

    bad, st, tr, matched = validate_trace("ParRangeTrace", "ParRangeTrace.cfg", trace, n, resync=resync,
                                          max_violations=8)
    rep.states += st
    rep.transitions += tr
    rep.traces = info["runs"] - len(bad)
    rep.evaluations = info["runs"]
    par = [e for e in events if e["ev"] == "reset"]
    # distinct non-trivial = parallel runs with distinct (days, workers, threshold, event order signature)
    sigs = set()
    cur = None
    order = []
    for e in events:
        if e["ev"] == "reset":
            if cur is not None and any(x == "decide_par" for x in order):
                sigs.add((cur["n"], cur["p"], cur["t"], tuple(order)))
            cur, order = e, []
        else:
            order.append(e["ev"] if e["ev"] not in ("w_start", "w_send", "recv_ok", "spawn_worker") else (e["ev"], e.get("a")))
    if cur is not None and any(x == "decide_par" for x in order):
        sigs.add((cur["n"], cur["p"], cur["t"], tuple(order)))
    rep.distinct_nontrivial = len(sigs)
    rep.rule = ("one evaluation = one hooked call of prayer_times_dt_rng_block (workers 1..64 via the parallelism override, "
                "0..6000 days, thresholds 0..400, one of 8 delay profiles at every hook point); non-trivial = took the parallel "
                "path; distinct = distinct (days, workers, threshold, observed event order)")
    rep.extra["events"] = n
    rep.extra["parallel_runs"] = info["parallel_runs"]
    rep.extra["hangs"] = info["hangs"]
    rep.extra["model_constants"] = "days 0..6, parallelism 1..4, threshold 0..2" if tier == "thorough" else "days 0..5, parallelism 1..3, threshold 0..2"
    rep.extra["action_coverage"] = {k: v[1] for k, v in mc.coverage.items()}
    # sample: the first parallel run's events
    for r0 in resets:
        seg = events[r0 - 1:resync(r0) - 1]
        if any(e["ev"] == "decide_par" for e in seg) and len(seg) < 40:
            rep.sample(seg)
            break
    rep.sample(events[0:3])
    rep.assumptions = ["std::sync::mpsc is FIFO and recv() errs exactly when the queue is empty and all Senders are dropped; thread::scope joins all threads",
                       "the ordering lock of the hooks serialises sends and drop(tx) with the logged events (this constrains, but does not change, the schedules the code can take)",
                       "value equality of the parallel and sequential maps is computed by the harness with the library's PartialEq"]
    for idx in bad:
        e = events[idx - 1]
        r0 = max([r for r in resets if r <= idx] or [1])
        run_ev = events[r0 - 1]
        inv = getattr(validate_trace, "invariants", {}).get(idx)
        what = f"run {run_ev.get('run')} (days={run_ev['n']} workers={run_ev['p']} threshold={run_ev['t']}): event '{e['ev']}' "
        what += f"violates invariant {inv}" if inv else "is not a step of ParRange"
        if e.get("out") in ("hang", "panic"):
            what += f" (call ended in {e['out']}: {e.get('msg', '')})"
        rep.violation(what, {"run": run_ev, "event": e}, {"event_index": idx, "events_of_run": events[r0 - 1:idx]})
    return rep.finish()
