"""C15 - parallel range computation equals the sequential one under every schedule (DESIGN §5 C15)."""
import os
from .common import *


def run(tier, seed, replay=None):
    rep = Report("C15", tier, seed)
    wd = workdir("C15")
    # design level: all interleavings of main / collector / workers for small ranges, incl. termination
    mc = tlc_must_pass("ParRange", "ParRangeMC.cfg" if tier == "thorough" else "ParRangeMCq.cfg",
                       workers=8, coverage=True, timeout=1500)
    rep.add_tlc(mc)
    # vacuity: without the main thread's drop(tx) the model must not terminate
    nd = tlc_must_fail("ParRange", "ParRangeNoDrop.cfg", expect="temporal", workers=4)
    rep.add_tlc(nd)
    # impl -> spec: hooked runs under perturbed schedules
    trace = os.path.join(wd, "trace.ndjson")
    info = harness(["c15", "--out", trace, "--seed", seed, "--tier", tier], timeout=3000)
    n = info["events"]
    events = read_trace(trace)
    resets = [i + 1 for i, e in enumerate(events) if e["ev"] == "reset"]

    def resync(idx):
        nxt = [r for r in resets if r > idx]
        return nxt[0] if nxt else n + 1

    bad, st, tr, matched = validate_trace("ParRangeTrace", "ParRangeTrace.cfg", trace, n, resync=resync,
                                          max_violations=8)
    rep.states += st
    rep.transitions += tr
    for text, idxs in getattr(validate_trace, "notes", {}).items():
        log(f"[C15] note (not a violation of C15): {text} in {len(idxs)} recorded run(s)")
        rep.extra.setdefault("notes", {})[text] = len(idxs)
    rep.traces = info["runs"] - len(bad)
    rep.evaluations = info["runs"]
    par = [e for e in events if e["ev"] == "reset"]
    # distinct non-trivial = parallel runs with distinct (days, workers, threshold, event order signature)
    sigs = set()
    cur = None
    order = []
    for e in events:
        if e["ev"] == "reset":
            if cur is not None and any(x == "decide_par" for x in order):
                sigs.add((cur["n"], cur["p"], cur["t"], tuple(order)))
            cur, order = e, []
        else:
            order.append(e["ev"] if e["ev"] not in ("w_start", "w_send", "recv_ok", "spawn_worker") else (e["ev"], e.get("a")))
    if cur is not None and any(x == "decide_par" for x in order):
        sigs.add((cur["n"], cur["p"], cur["t"], tuple(order)))
    rep.distinct_nontrivial = len(sigs)
    rep.rule = ("one evaluation = one hooked call of prayer_times_dt_rng_block (workers 1..64 via the parallelism override, "
                "0..6000 days, thresholds 0..400, one of 8 delay profiles at every hook point); non-trivial = took the parallel "
                "path; distinct = distinct (days, workers, threshold, observed event order)")
    rep.extra["events"] = n
    rep.extra["parallel_runs"] = info["parallel_runs"]
    rep.extra["hangs"] = info["hangs"]
    rep.extra["model_constants"] = "days 0..6, parallelism 1..4, threshold 0..2" if tier == "thorough" else "days 0..5, parallelism 1..3, threshold 0..2"
    rep.extra["action_coverage"] = {k: v[1] for k, v in mc.coverage.items()}
    # sample: the first parallel run's events
    for r0 in resets:
        seg = events[r0 - 1:resync(r0) - 1]
        if any(e["ev"] == "decide_par" for e in seg) and len(seg) < 40:
            rep.sample(seg)
            break
    rep.sample(events[0:3])

    # spec -> impl: every maximal behaviour of the model for tiny constants (and a simulated sample for larger ones)
    # is replayed through the hook points of the real code
    import re
    configs = [(0, 2, 0, None), (1, 2, 0, None), (3, 2, 0, None), (2, 3, 0, None)]
    if tier == "thorough":
        configs += [(4, 2, 1, None), (3, 3, 0, 3000), (5, 3, 1, 3000), (6, 4, 0, 2000)]
    else:
        configs += [(3, 3, 0, 400)]
    scheds = []
    for (nd, pl, th, sim) in configs:
        cfgp = os.path.join(WORK, "cfg", f"sched_{nd}_{pl}_{th}.cfg")
        os.makedirs(os.path.dirname(cfgp), exist_ok=True)
        with open(cfgp, "w") as f:
            f.write(f"SPECIFICATION SSpec\nCONSTANTS\n  MaxDays = 6\n  MaxPll = 4\n  MaxThr = 3\n  NoDropTx = FALSE\n"
                    f"  NDays = {nd}\n  Pll = {pl}\n  Thr = {th}\nINVARIANTS Emit NoPanic ResultCorrect\nCHECK_DEADLOCK FALSE\n")
        r = tlc("ParRangeSched", cfgp, workers=1, timeout=900, heap="6g",
                simulate=(f"num={sim}" if sim else None), extra=(["-depth", "60", "-seed", str(seed)] if sim else None))
        if not r.ok and not sim:
            log(r.output[-2000:])
            raise ToolError(f"ParRangeSched {nd},{pl},{th} failed: {r.error}")
        if not sim:
            rep.add_tlc(r)
        seen = set()
        for p in r.prints:
            p = p.strip('"').replace('\\"', '"')
            if not p.startswith('<<"SCHED"'):
                continue
            steps = [[a, int(b)] for a, b in re.findall(r'<<"(\w+)", (\d+)>>', p)]
            key = json.dumps(steps)
            if key not in seen:
                seen.add(key)
                scheds.append([nd, pl, th, steps])
    if len(scheds) < 1000:
        raise ToolError(f"only {len(scheds)} schedules emitted by the model")
    sfile = os.path.join(wd, "sched.json")
    with open(sfile, "w") as f:
        json.dump(scheds, f)
    trace2 = os.path.join(wd, "trace_replay.ndjson")
    info2 = harness(["c15s", "--out", trace2, "--sched", sfile, "--seed", seed], timeout=3000)
    events2 = read_trace(trace2)
    resets2 = [i + 1 for i, e in enumerate(events2) if e["ev"] == "reset"]

    def resync2(idx):
        nxt = [r0 for r0 in resets2 if r0 > idx]
        return nxt[0] if nxt else info2["events"] + 1

    bad2, st2, tr2, matched2 = validate_trace("ParRangeTrace", "ParRangeTrace.cfg", trace2, info2["events"], resync=resync2,
                                              max_violations=8)
    rep.states += st2
    rep.transitions += tr2
    rep.traces += len(scheds) - len(bad2)
    rep.evaluations += len(scheds)
    for text, idxs in getattr(validate_trace, "notes", {}).items():
        log(f"[C15] note (not a violation of C15): {text} in {len(idxs)} replayed run(s)")
        rep.extra.setdefault("notes", {})[text + " (replay)"] = len(idxs)
    rep.extra["schedules_replayed"] = len(scheds)
    rep.extra["schedules_followed_exactly"] = info2["followed"]
    rep.extra["schedules_unrealised"] = info2["unrealised"]
    rep.extra["schedules_inapplicable"] = info2.get("inapplicable", 0)
    rep.sample({"replayed_schedule": scheds[len(scheds) // 2]})
    for idx in bad2:
        e = events2[idx - 1]
        r0 = max([x for x in resets2 if x <= idx] or [1])
        run_ev = events2[r0 - 1]
        inv = getattr(validate_trace, "invariants", {}).get(idx)
        what = f"schedule replay (days={run_ev['n']} workers={run_ev['p']} threshold={run_ev['t']}): event '{e['ev']}' "
        what += f"violates invariant {inv}" if inv else "is not a step of ParRange"
        if e.get("out") in ("hang", "panic"):
            what += f" (call ended in {e['out']})"
        rep.violation(what, {"run": run_ev, "event": e}, {"event_index": idx, "events_of_run": events2[r0 - 1:idx]})
    rep.assumptions = ["std::sync::mpsc is FIFO and recv() errs exactly when the queue is empty and all Senders are dropped; thread::scope joins all threads",
                       "the ordering lock of the hooks serialises sends and drop(tx) with the logged events (this constrains, but does not change, the schedules the code can take)",
                       "value equality of the parallel and sequential maps is computed by the harness with the library's PartialEq"]
    for idx in bad:
        e = events[idx - 1]
        r0 = max([r for r in resets if r <= idx] or [1])
        run_ev = events[r0 - 1]
        inv = getattr(validate_trace, "invariants", {}).get(idx)
        what = f"run {run_ev.get('run')} (days={run_ev['n']} workers={run_ev['p']} threshold={run_ev['t']}): event '{e['ev']}' "
        what += f"violates invariant {inv}" if inv else "is not a step of ParRange"
        if e.get("out") in ("hang", "panic"):
            what += f" (call ended in {e['out']}: {e.get('msg', '')})"
        rep.violation(what, {"run": run_ev, "event": e}, {"event_index": idx, "events_of_run": events[r0 - 1:idx]})
    rc = rep.finish()
    applicable = len(scheds) - info2.get("inapplicable", 0)
    if info2.get("inapplicable", 0):
        log(f"[C15] {info2['inapplicable']} of {len(scheds)} model schedules do not apply: the code took the other sequential / parallel decision, or its partition() gives another number of blocks than DateRangeDefs!PartitionFn")
    if rc == 0 and applicable > 0 and info2["followed"] < 0.9 * applicable:
        raise ToolError(f"only {info2['followed']} of {applicable} applicable model schedules could be followed by the real code: spec and hooks disagree")
    return rc
