"""C04 - Asr follows the shadow-length rule of the selected school."""
from .solcommon import *


def run(tier, seed, replay=None):
    rep = Report("C04", tier, seed)
    sun_selfcheck(rep)
    args = ["--stride", 2] if tier == "thorough" else ["--years", 40, "--random", 2500]
    info, events = validate(rep, "C04", "c04", args, heap="10g" if tier == "thorough" else "6g")
    rep.distinct_nontrivial = len({(e["site"]["lat"], e["site"]["lon"], e["date"]["dn"], e["p"]["sch"]) for e in events
                                   if e["ev"] == "c04" and e["r"]["t"][4] >= 0})
    rep.extra["zenith_stratum"] = info.get("zenith_stratum")
    rep.rule = ("one c04 event = one public call at |lat|<=60, both schools, incl. a stratum with the latitude within 0.5 degree of the Sun's "
                "declination (zenith passage); TLC solves cot a = k + tan|lat-dec| by bisection; one c04s event = Shafi vs Hanafi; non-trivial = Asr reported")
    for e in (events[0], events[1]):
        rep.sample(e)
    rep.assumptions = ["declination of the date = at 0 h local civil time"]
    return rep.finish()
