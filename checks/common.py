"""Shared driver code: build the harness against /repo's working tree, run TLC (model checking and
trace validation), collect violations, write evidence, honour known_findings.json.

Exit codes of bin/check: 0 held; 1 VIOLATION line(s) printed; 2 tool error / time-out.
"""
import json
import os
import re
import shutil
import subprocess
import sys
import time

VERIF = os.path.dirname(os.path.dirname(os.path.abspath(__file__)))
SPEC = os.path.join(VERIF, "spec")
HARNESS_DIR = os.path.join(VERIF, "harness")
HARNESS = os.path.join(HARNESS_DIR, "target", "release", "ipt-harness")
WORK = os.path.join(VERIF, "work")
EVIDENCE = os.path.join(VERIF, "evidence")
REPLAYS = os.path.join(VERIF, "replays")
REPO = "/repo"
NCPU = os.cpu_count() or 4


class ToolError(Exception):
    pass


def log(*a):
    print(*a, file=sys.stderr, flush=True)


def say(*a):
    print(*a, flush=True)


def workdir(pid):
    d = os.path.join(WORK, pid)
    os.makedirs(d, exist_ok=True)
    return d


_built = False


def build_harness():
    """Rebuild the harness (and with it the library, hooks enabled) from /repo's working tree."""
    global _built
    if _built:
        return HARNESS
    lock = os.path.join(HARNESS_DIR, "Cargo.lock")
    if not os.path.exists(lock):
        shutil.copy(os.path.join(REPO, "Cargo.lock"), lock)
    env = dict(os.environ, CARGO_NET_OFFLINE="true")
    t0 = time.time()
    r = subprocess.run(["cargo", "build", "--release", "--offline"], cwd=HARNESS_DIR, env=env,
                       stdout=subprocess.PIPE, stderr=subprocess.STDOUT, text=True)
    if r.returncode != 0:
        log(r.stdout[-4000:])
        raise ToolError("harness build failed (does /repo still compile with --cfg ipt_verif?)")
    log(f"[build] harness built in {time.time() - t0:.1f}s")
    _built = True
    return HARNESS


def build_cli():
    """Build the repository's own binary (guard off) into a target dir outside /repo."""
    tdir = os.path.join(HARNESS_DIR, "target", "cli")
    env = dict(os.environ, CARGO_NET_OFFLINE="true")
    r = subprocess.run(["cargo", "build", "--release", "--offline", "--manifest-path",
                        os.path.join(REPO, "Cargo.toml"), "--target-dir", tdir,
                        "--bin", "islamic_prayer_times"], cwd=WORK, env=env,
                       stdout=subprocess.PIPE, stderr=subprocess.STDOUT, text=True)
    if r.returncode != 0:
        log(r.stdout[-4000:])
        raise ToolError("CLI build failed")
    return os.path.join(tdir, "release", "islamic_prayer_times")


def harness(args, timeout=3600, env=None, check=True):
    """Run the harness; returns the JSON object it prints on its last stdout line."""
    build_harness()
    e = dict(os.environ)
    if env:
        e.update(env)
    t0 = time.time()
    try:
        r = subprocess.run([HARNESS] + [str(a) for a in args], stdout=subprocess.PIPE,
                           stderr=subprocess.PIPE, text=True, timeout=timeout, env=e)
    except subprocess.TimeoutExpired:
        raise ToolError(f"harness {args[0]} timed out after {timeout}s")
    if r.returncode != 0 and check:
        log(r.stderr[-3000:])
        raise ToolError(f"harness {args} exited {r.returncode}")
    log(f"[harness] {' '.join(str(a) for a in args[:6])} ... {time.time() - t0:.1f}s")
    last = [ln for ln in r.stdout.strip().splitlines() if ln.startswith("{")]
    return json.loads(last[-1]) if last else {}


class TlcResult:
    def __init__(self):
        self.generated = 0
        self.distinct = 0
        self.depth = 0
        self.ok = False
        self.error = None       # first "Error:" line
        self.violated = None    # name of the violated invariant/property
        self.prints = []        # parsed PrintT tuples (as raw strings)
        self.output = ""
        self.wall = 0.0
        self.coverage = {}      # action name -> (distinct, total) when -coverage was on
        self.rc = 0


def tlc(module, cfg, env=None, workers=None, timeout=1800, simulate=None, depth_first=False,
        coverage=False, heap="4g", metaname=None, extra=None):
    """Run TLC on spec/<module>.tla with spec/<cfg>. Never raises on a property violation."""
    meta = os.path.join(WORK, "tlc", metaname or (module + "_" + os.path.splitext(cfg)[0] + "_" + str(os.getpid())))
    shutil.rmtree(meta, ignore_errors=True)
    os.makedirs(meta, exist_ok=True)
    e = dict(os.environ)
    jopts = f"-Xss1g -Xmx{heap}"
    if depth_first:
        jopts += " -Dtlc2.tool.queue.IStateQueue=StateDeque"
    e["JAVA_TOOL_OPTIONS"] = jopts
    if env:
        e.update({k: str(v) for k, v in env.items()})
    cmd = ["timeout", str(timeout), "tlc", "-workers", str(workers or 1), "-metadir", meta,
           "-cleanup", "-noGenerateSpecTE", "-config", cfg]
    if coverage:
        cmd += ["-coverage", "1"]
    if simulate:
        cmd += ["-simulate", simulate]
    if extra:
        cmd += extra
    cmd += [module + ".tla"]
    t0 = time.time()
    r = subprocess.run(cmd, cwd=SPEC, env=e, stdout=subprocess.PIPE, stderr=subprocess.STDOUT, text=True)
    res = TlcResult()
    res.wall = time.time() - t0
    res.output = r.stdout
    res.rc = r.returncode
    shutil.rmtree(meta, ignore_errors=True)
    if r.returncode == 124:
        raise ToolError(f"TLC timed out after {timeout}s on {module}/{cfg}")
    m = re.findall(r"(\d[\d,]*) states generated, (\d[\d,]*) distinct states found", r.stdout)
    if m:
        res.generated = int(m[-1][0].replace(",", ""))
        res.distinct = int(m[-1][1].replace(",", ""))
    m = re.findall(r"depth of the complete state graph search is (\d+)", r.stdout)
    if m:
        res.depth = int(m[-1])
    for ln in r.stdout.splitlines():
        if ln.startswith("<<") or ln.startswith('"'):
            res.prints.append(ln)
    errs = [ln for ln in r.stdout.splitlines() if ln.startswith("Error:")]
    if errs:
        res.error = errs[0]
        m = re.search(r"Invariant (\w+) is violated", r.stdout)
        if m:
            res.violated = m.group(1)
        m = re.search(r"Temporal propert(ies were|y \w+ was) violated", r.stdout)
        if m and not res.violated:
            res.violated = "temporal"
        m = re.search(r"Postcondition (\w+)", errs[0])
        if m:
            res.violated = m.group(1)
        if "Deadlock reached" in r.stdout:
            res.violated = res.violated or "deadlock"
        if "Assumption" in errs[0]:
            res.violated = res.violated or "assumption"
    res.ok = (r.returncode == 0 and not errs)
    if coverage:
        for mm in re.finditer(r"<(\w+) line \d+, col \d+ to line \d+, col \d+ of module \w+>: (\d+):(\d+)", r.stdout):
            res.coverage[mm.group(1)] = (int(mm.group(2)), int(mm.group(3)))
    log(f"[tlc] {module}/{cfg}: rc={r.returncode} generated={res.generated} distinct={res.distinct} "
        f"depth={res.depth} {res.wall:.1f}s" + (f" ERROR {res.error}" if res.error else ""))
    return res


def tlc_must_pass(module, cfg, **kw):
    """Design-level model checking that must succeed on the committed spec: failure = tool error
    (the spec is part of /verif, not of the code under test)."""
    r = tlc(module, cfg, **kw)
    if not r.ok:
        log(r.output[-3000:])
        raise ToolError(f"model checking {module}/{cfg} failed: {r.error}")
    return r


def tlc_must_fail(module, cfg, expect=None, **kw):
    """Vacuity self-test: a Legacy*/mutated config must be rejected by TLC."""
    r = tlc(module, cfg, **kw)
    if r.ok or (expect and r.violated != expect):
        log(r.output[-3000:])
        raise ToolError(f"self-test {module}/{cfg}: expected violation of {expect}, got {r.violated}")
    return r


def read_trace(path):
    with open(path) as f:
        return [json.loads(ln) for ln in f if ln.strip()]


def validate_trace(module, cfg, trace_path, n_events, max_violations=12, timeout=1800, heap="4g",
                   env=None, resync=None):
    """impl -> spec: TLC consumes the trace; an event no action of the spec matches stops it.
    Returns (unmatched_indices (1-based), states, transitions, matched_events).

    After a rejection the driver restarts validation behind the rejected event (resync(idx) may
    move the restart point further, e.g. to the next 'reset' event of a stateful trace), so one
    rejection does not hide the rest of the trace."""
    start = 1
    bad = []
    inv_hit = {}
    known_hits = {}
    validate_trace.invariants = inv_hit
    validate_trace.known_hits = known_hits
    notes = {}
    validate_trace.notes = notes      # conformance notes printed by a trace spec (never violations)
    states = 0
    trans = 0
    matched_total = 0
    while start <= n_events:
        e = {"TRACE": trace_path, "START": start}
        if env:
            e.update(env)
        r = tlc(module, cfg, env=e, workers=1, depth_first=True, timeout=timeout, heap=heap)
        m = None
        for p in r.prints:
            mm = re.match(r'<<"MATCHED", (-?\d+), (\d+)>>', p)
            if mm:
                m = (int(mm.group(1)), int(mm.group(2)))
            mk = re.match(r'<<"KNOWN", "(\w+)", (\d+)>>', p)
            if mk:
                known_hits.setdefault(mk.group(1), set()).add(int(mk.group(2)))
            mn = re.match(r'<<"NOTE", "([^"]+)", (\d+)>>', p)
            if mn:
                notes.setdefault(mn.group(1), set()).add(int(mn.group(2)))
        if m is None and r.violated and r.violated not in ("TraceAccepted", "assumption"):
            # an invariant of the specification is false in a state of the trace: the event that
            # led into that state is the rejected one (the state's l is one past it)
            ls = re.findall(r"^/\\ l = (\d+)", r.output, re.M)
            if not ls:
                log(r.output[-3000:])
                raise ToolError(f"trace validation {module}: invariant {r.violated} violated but no state printed")
            matched, total = int(ls[-1]) - 2, n_events
            log(f"[trace] invariant {r.violated} violated after event {matched + 1}")
            inv_hit[matched + 1] = r.violated
        elif m is None:
            log(r.output[-3000:])
            raise ToolError(f"trace validation {module}: no MATCHED line (TLC error: {r.error})")
        else:
            matched, total = m
        if total != n_events:
            raise ToolError(f"trace length mismatch: TLC saw {total}, harness wrote {n_events}")
        states += r.distinct
        trans += max(r.generated - 1, 0)
        matched_total += max(matched - start + 1, 0)
        if matched >= n_events:
            break
        bad.append(matched + 1)
        if len(bad) >= max_violations:
            log(f"[trace] stopping after {len(bad)} rejected events")
            break
        start = matched + 2
        if resync:
            start = resync(matched + 1)
    return bad, states, trans, matched_total


# ----------------------------------------------------------------------------------------------
# findings, replays, evidence

def load_known():
    p = os.path.join(VERIF, "known_findings.json")
    if not os.path.exists(p):
        return {"fixed": [], "known": []}
    with open(p) as f:
        return json.load(f)


def matches_known(pid, event, known):
    """A violation is suppressed only when it matches a listed `known` entry of the same property:
    every key of entry['match'] must equal (or, for {'lt':..}/{'gt':..}/{'in':..}, satisfy) the
    event's value at that dotted path."""
    def get(ev, path):
        cur = ev
        for part in path.split("."):
            if isinstance(cur, dict) and part in cur:
                cur = cur[part]
            else:
                return None
        return cur
    for k in known.get("known", []):
        if k.get("property") != pid:
            continue
        ok = True
        for path, want in k.get("match", {}).items():
            got = get(event, path)
            if isinstance(want, dict):
                if "lt" in want and not (got is not None and got < want["lt"]):
                    ok = False
                if "gt" in want and not (got is not None and got > want["gt"]):
                    ok = False
                if "in" in want and got not in want["in"]:
                    ok = False
            elif got != want:
                ok = False
        if ok:
            return k
    return None


class Report:
    """Collects what one check did; prints VIOLATION / KNOWN-FINDING lines; writes evidence."""
    current = None     # the report of the running check (bin/check finishes it if the check dies after a violation)

    def __init__(self, pid, tier, seed):
        Report.current = self
        self.pid = pid
        self.tier = tier
        self.seed = seed
        self.t0 = time.time()
        self.states = 0
        self.transitions = 0
        self.traces = 0
        self.evaluations = 0
        self.distinct_nontrivial = 0
        self.samples = []
        self.rule = ""
        self.extra = {}
        self.assumptions = []
        self.violations = 0
        self.known_hits = 0
        self.exhaustive = None
        self.known = load_known()
        self._n_replay = 0
        # every finding listed for this property is announced on every run (whether or not this run's inputs hit it)
        for k in self.known.get("known", []):
            if k.get("property") == pid:
                say(f"KNOWN-FINDING: property={pid} {k.get('what', '')}")

    def add_tlc(self, r):
        self.states += r.distinct
        self.transitions += max(r.generated - 1, 0) if r.generated else 0

    def sample(self, x, limit=6):
        if len(self.samples) < limit:
            self.samples.append(x)

    def violation(self, what, event, extra=None):
        """Report one violation with a concrete failing input in hand."""
        k = matches_known(self.pid, event if isinstance(event, dict) else {}, self.known)
        if k is not None:
            self.known_hits += 1
            say(f"KNOWN-FINDING: property={self.pid} {k.get('what', what)}")
            return
        os.makedirs(REPLAYS, exist_ok=True)
        self._n_replay += 1
        path = os.path.join(REPLAYS, f"{self.pid}-{self.tier}-{self.seed}-{self._n_replay}.json")
        with open(path, "w") as f:
            json.dump({"property": self.pid, "tier": self.tier, "seed": self.seed, "what": what,
                       "event": event, "extra": extra}, f, indent=1)
        self.violations += 1
        say(f"VIOLATION property={self.pid} replay={path}")
        log(f"  -> {what}: {json.dumps(event)[:600]}")

    def finish(self):
        cov = {
            "states": max(self.states, 0),
            "transitions": max(self.transitions, 0),
            "traces_validated_against_impl": self.traces,
            "evaluations": self.evaluations,
            "distinct_nontrivial": self.distinct_nontrivial,
            "rule": self.rule,
            "samples": self.samples if self.samples else ["(no sample recorded)"],
        }
        if self.exhaustive is not None:
            cov["exhaustive"] = self.exhaustive
        cov.update(self.extra)
        ev = {
            "property_id": self.pid,
            "tier": self.tier,
            "seed": self.seed,
            "level": "model_checking",
            "coverage": cov,
            "assumptions": self.assumptions,
            "wall_s": round(time.time() - self.t0, 2),
            "violations": self.violations,
        }
        os.makedirs(EVIDENCE, exist_ok=True)
        with open(os.path.join(EVIDENCE, f"{self.pid}.json"), "w") as f:
            json.dump(ev, f, indent=1)
        log(f"[{self.pid}] tier={self.tier} seed={self.seed} states={self.states} traces={self.traces} "
            f"evaluations={self.evaluations} violations={self.violations} known={self.known_hits} "
            f"wall={ev['wall_s']}s")
        return 1 if self.violations else 0


def apalache_inductive(rep, module, timeout=900):
    """Unbounded design-level lemma: Apalache discharges Init => IndInv, IndInv /\\ Next => IndInv', IndInv => Lemma
    for spec/apalache/<module>.tla. A failure is a tool error (the lemma is part of /verif, not of the code)."""
    outdir = os.path.join(WORK, "apalache_" + module)
    obligations = [("--init=Init", "--inv=IndInv", "--length=0"), ("--init=IndInit", "--inv=IndInv", "--length=1"),
                   ("--init=IndInit", "--inv=Lemma", "--length=0")]
    done = 0
    for ob in obligations:
        r = subprocess.run(["timeout", str(timeout), "apalache-mc", "check", f"--out-dir={outdir}", *ob, module + ".tla"],
                           cwd=os.path.join(SPEC, "apalache"), stdout=subprocess.PIPE, stderr=subprocess.STDOUT, text=True)
        if "EXITCODE: OK" not in r.stdout:
            log(r.stdout[-1500:])
            raise ToolError(f"Apalache obligation {ob} of {module} not discharged")
        done += 1
    shutil.rmtree(outdir, ignore_errors=True)
    rep.extra["apalache_inductive_obligations_discharged"] = done
    rep.extra["apalache_module"] = module
    log(f"[apalache] {module}: {done}/3 obligations discharged (unbounded integers)")
