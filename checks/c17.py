"""C17 - Hijri conversion is the tabular Islamic calendar, day for day (DESIGN §5 C17)."""
import os
from .common import *


def run(tier, seed, replay=None):
    rep = Report("C17", tier, seed)
    wd = workdir("C17")
    # design level: the implementation-shaped search loops refine the 30-year-cycle definition
    cfg = "HijriMC.cfg" if tier == "thorough" else "HijriMCq.cfg"
    mc = tlc_must_pass("Hijri", cfg, workers=8, coverage=True, timeout=1500)
    rep.add_tlc(mc)
    leg = tlc_must_fail("Hijri", "HijriLegacy.cfg", expect="Correct", workers=4)
    rep.add_tlc(leg)
    # impl -> spec over the entire domain (both tiers: the sweep is cheap)
    trace = os.path.join(wd, "trace.ndjson")
    info = harness(["c17", "--out", trace, "--seed", seed, "--random", 100000 if tier == "thorough" else 20000], timeout=600)
    if info.get("hang"):
        # a conversion did not return: nothing else of this run can be trusted, report it and stop
        rep.evaluations = 1
        rep.violation("conversion of a date did not return within 20 s (the sweep stops here)", info["hang"], {})
        return rep.finish()
    n = info["events"]
    events = read_trace(trace)
    bad, st, tr, matched = validate_trace("HijriTrace", "HijriTrace.cfg", trace, n, heap="8g", timeout=1500)
    rep.states += st
    rep.transitions += tr
    rep.traces = matched
    rep.evaluations = info["dates"]
    rep.distinct_nontrivial = n
    rep.exhaustive = True
    rep.rule = ("every Gregorian date 0001-01-01..9999-12-31 is converted and printed (evaluations); an event is logged "
                "for each date whose result is not the plain successor of the previous date's result (month starts, "
                "irregularities, panics) - distinct_nontrivial counts those events; TLC checks each against the 30-year-cycle "
                "definition and that every run between events stays inside its month")
    for i in (0, 1, 7590, len(events) - 2, len(events) - 1):
        rep.sample(events[min(i, len(events) - 1)])
    rep.extra["dates_swept"] = info["dates"]
    rep.extra["panics_observed"] = info["panics"]
    rep.extra["random_order_conversions"] = info.get("random_order")
    rep.extra["rejected_events"] = len(bad)
    rep.extra["model_window_years"] = "62 before/after the epoch" if tier == "thorough" else "12 before/after the epoch"
    rep.assumptions = ["chrono's proleptic Gregorian calendar (num_days_from_ce, weekday) - cross-checked per event against Calendar.tla's RD()",
                       "the harness' 'plain successor' projection (day+1, same month/year, weekday+1, printed text consistent)"]
    for idx in bad:
        e = events[idx - 1]
        if e["out"] == "panic":
            what = "conversion or printing panicked"
        elif e["out"] == "end":
            what = "last month of the sweep runs past its length"
        else:
            what = "reported Hijri date/weekday is not the tabular calendar's, or the preceding month ran past its length"
        rep.violation(what, e, {"event_index": idx})
    return rep.finish()
