"""C09 - nearest-good-day fallback finds the closest date with valid twilight."""
from .pdcommon import *


def run(tier, seed, replay=None):
    rep = Report("C09", tier, seed)
    gd = tlc_must_pass("GoodDay", "GoodDayMC.cfg", workers=8, coverage=True, timeout=900)
    rep.add_tlc(gd)
    leg = tlc_must_fail("GoodDay", "GoodDayLegacy.cfg", expect="FindsClosest", workers=4)   # D3 at design level
    rep.add_tlc(leg)
    # the same lemma by induction for a window of +-40 days and every validity pattern (Apalache)
    apalache_inductive(rep, "GoodDayInd")
    if tier == "thorough":
        args = ["--n", 20000, "--years", 40]
    else:
        args = ["--n", 1500, "--years", 2]
    info, events = validate_events(rep, "C09", args, "c09", heap="12g" if tier == "thorough" else "6g")
    rep.distinct_nontrivial = len({(e["site"]["lat"], e["site"]["lon"], e["date"]["dn"], e["p"]["meth"], e["p"]["pol"])
                                   for e in events if len(e["nb"]) > 1})
    rep.rule = ("one event = a nearest-good-day call plus the conventional results of the neighbouring dates out to the first date with both "
                "Fajr and Isha (TLC redoes the choice); non-trivial = twilight missing on the requested date so a search happened; "
                "includes every day of whole years at |lat| 49..64 in both hemispheres")
    rep.extra["searched"] = info.get("searched")
    for e in events:
        if 1 < len(e["nb"]) < 8:
            rep.sample(e)
            break
    rep.sample({k: (v if k != "nb" else v[:3] + ["..."]) for k, v in events[0].items()})
    rep.assumptions = ["|lat| <= 64: some good date exists within the year"]
    return rep.finish()
