"""C20 - clock times are consistent across time zones and meridians."""
from .solcommon import *


def run(tier, seed, replay=None):
    rep = Report("C20", tier, seed)
    sun_selfcheck(rep)
    args = ["--stride", 2] if tier == "thorough" else ["--years", 40, "--random", 3000]
    info, events = validate(rep, "C20", "c20", args, heap="10g" if tier == "thorough" else "6g")
    rep.distinct_nontrivial = len({(e["site"]["lat"], e["site"]["lon"], e["date"]["dn"], e["kind"], e["d"]) for e in events})
    rep.rule = ("one event = the same date computed at two zone settings: gmt +-0.5/1/3 h at the same site, or 15 degrees east with gmt + 1 h; "
                "|lat|<=45, all methods, equinox/year-end strata + random dates (thorough: every 7th date 1600..2399)")
    for e in events[:3]:
        rep.sample(e)
    rep.assumptions = ["entries within 30 s of civil midnight, or moved across it by the shift, are skipped (the library then reports the adjacent solar day's event)"]
    return rep.finish()
