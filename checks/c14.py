"""C14 - ranges and partitions (DESIGN §5 C14)."""
import os
import shutil
from .common import *


def run(tier, seed, replay=None):
    rep = Report("C14", tier, seed)
    wd = workdir("C14")
    # design level: the implementation-shaped machine refines the property level for all small (len, k)
    mc = tlc_must_pass("DateRange", "DateRangeMC.cfg", workers=8, coverage=True, timeout=900)
    rep.add_tlc(mc)
    for act in ("PartStart", "PartLoop", "IterStep"):
        if act in mc.coverage and mc.coverage[act][1] == 0:
            raise ToolError(f"vacuous model: action {act} never taken")
    # vacuity self-test: the pre-fix num_days (D4) must be found by TLC on the same spec
    leg = tlc_must_fail("DateRange", "DateRangeLegacy.cfg", expect="NumDaysCorrect", workers=2)
    rep.add_tlc(leg)
    # unbounded: Apalache discharges the inductive invariant of the partition loop for ANY length and k
    apalache_inductive(rep, "PartitionInd")
    # impl -> spec (+ the model's (len,k) table replayed through the real partition())
    trace = os.path.join(wd, "trace.ndjson")
    info = harness(["c14", "--out", trace, "--seed", seed, "--tier", tier], timeout=3000)
    n = info["events"]
    events = read_trace(trace)
    bad, st, tr, matched = validate_trace("DateRangeTrace", "DateRangeTrace.cfg", trace, n)
    rep.states += st
    rep.transitions += tr
    rep.traces = matched
    rep.evaluations = n
    distinct = set()
    for e in events:
        if e["ev"] == "part":
            distinct.add(("part", e["e"] - e["s"], e["k"], e["s"]))
        elif e["ev"] == "rng" and e["e"] >= e["s"]:
            distinct.add(("rng", e["s"], e["e"]))
    rep.distinct_nontrivial = len(distinct)
    rep.rule = ("events = recorded public calls (num_days, partition(k), prayer_times_dt_rng); distinct = distinct "
                "(kind, start, length, k); non-trivial = partition calls and non-empty range calls (range calls compare "
                "every day with the single-date API)")
    for i in (0, 1, len(events) // 2, len(events) - 1):
        rep.sample(events[i])
    rep.extra["model_constants"] = "length -5..70 (negative = reversed), k 0..64"
    rep.extra["action_coverage"] = {k: v[1] for k, v in mc.coverage.items()}
    rep.extra["rejected_events"] = len(bad)
    rep.assumptions = ["chrono's NaiveDate arithmetic and ordering are correct",
                       "equality of a range entry with the single-date result is computed by the harness (PartialEq of the library's own types)"]
    for idx in bad:
        e = events[idx - 1]
        what = {"nd": "num_days() does not match the number of dates in the range",
                "part": "partition(k) is not an exact cover by at most max(k,1) contiguous non-empty blocks",
                "rng": "range API result is not one entry per date of the range equal to the single-date API"}.get(e["ev"], "unmatched event")
        if e.get("out") in ("hang", "panic"):
            what += f" (call ended in {e['out']})"
        rep.violation(what, e, {"event_index": idx})
    return rep.finish()
