"""C02 - Shurooq and Maghrib are sunrise and sunset of the Sun's upper limb."""
from .solcommon import *


def run(tier, seed, replay=None):
    rep = Report("C02", tier, seed)
    sun_selfcheck(rep)
    args = ["--stride", 1] if tier == "thorough" else ["--years", 40, "--random", 2500]
    info, events = validate(rep, "C02", "c02", args, heap="10g" if tier == "thorough" else "6g")
    rep.distinct_nontrivial = len({(e["site"]["lat"], e["site"]["lon"], e["date"]["dn"], str(e["p"]["w"])) for e in events
                                   if e["ev"] == "c02" and e["r"]["t"][2] >= 0})
    rep.extra["weather_pairs"] = info.get("weather_pairs")
    rep.rule = ("one c02 event = one public call at |lat|<=60 (all methods, weather absent / corners / interior); the ephemeris is evaluated at "
                "the reported Shurooq and Maghrib; one c02w event = the same call without and with weather; non-trivial = Shurooq reported")
    for e in (events[0], events[1], events[3]):
        rep.sample(e)
    rep.assumptions = ["tolerance 0.05 degree + 0.015 degree (oracle); events are attributed to the solar day of the reported Dhuhr (civil-midnight seam)"]
    return rep.finish()
