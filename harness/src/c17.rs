//! C17: the Hijri conversion swept over every date of the common era, compressed losslessly
//! to "every result that is not the plain successor of the previous one".

use std::panic::{catch_unwind, AssertUnwindSafe};

use chrono::{Datelike, NaiveDate};
use islamic_prayer_times::*;
use serde_json::json;

use crate::common::*;

#[derive(Clone, Copy, PartialEq, Debug)]
struct H {
    y: u32,
    m: u8,
    d: u8,
    bh: bool,
    wd: u8,
}

const MONTHS: [&str; 12] = [
    "Muharram", "Safar", "Rabia Awal", "Rabia Thani", "Jumada Awal", "Jumada Thani", "Rajab",
    "Shaaban", "Ramadan", "Shawwal", "Dhul Qiddah", "Dhul Hijjah",
];
const DAYS: [&str; 7] = ["Ahad", "Ithnain", "Thulatha", "Arbiaa", "Khamees", "Jumaah", "Sabt"];

// progress watchdog: `convert` publishes the date it is working on; a monitor thread reports a conversion that does not
// return within 20 s as a `hang` (written to <out>.hang - the trace writer belongs to the stuck thread) and ends the process
static CURRENT_RD: std::sync::atomic::AtomicI64 = std::sync::atomic::AtomicI64::new(0);
static TICK: std::sync::atomic::AtomicU64 = std::sync::atomic::AtomicU64::new(0);

fn start_watchdog(out: String) {
    use std::sync::atomic::Ordering::SeqCst;
    std::thread::spawn(move || {
        let (mut last, mut since) = (TICK.load(SeqCst), std::time::Instant::now());
        loop {
            std::thread::sleep(std::time::Duration::from_millis(500));
            let t = TICK.load(SeqCst);
            if t != last {
                last = t;
                since = std::time::Instant::now();
            } else if t > 0 && t % 2 == 1 && since.elapsed().as_secs() >= 20 {
                let rd = CURRENT_RD.load(SeqCst);
                let d = NaiveDate::from_num_days_from_ce_opt(rd as i32).unwrap();
                let e = json!({"ev": "hij", "out": "hang", "rd": rd, "gy": d.year(), "gm": d.month(), "gd": d.day()});
                let _ = std::fs::write(format!("{}.hang", out), e.to_string());
                println!("{}", json!({"events": 0, "dates": 0, "panics": 0, "hang": e}));
                std::process::exit(0);
            }
        }
    });
}

fn convert(date: NaiveDate) -> Result<(H, bool), String> {
    use std::sync::atomic::Ordering::SeqCst;
    CURRENT_RD.store(date.num_days_from_ce() as i64, SeqCst);
    TICK.fetch_add(1, SeqCst); // odd = inside a conversion
    let r = convert_inner(date);
    TICK.fetch_add(1, SeqCst); // even = outside
    r
}

fn convert_inner(date: NaiveDate) -> Result<(H, bool), String> {
    catch_unwind(AssertUnwindSafe(|| {
        let h = HijriDate::from(date);
        let txt = format!("{}", h);
        let res = H {
            y: h.year(),
            m: h.month() as u8,
            d: h.day(),
            bh: h.pre_epoch(),
            wd: h.day_of_week() as u8,
        };
        let want = format!(
            "{}, {} {}, {} {}",
            DAYS.get(res.wd as usize - 1).copied().unwrap_or("?"),
            MONTHS.get(res.m as usize - 1).copied().unwrap_or("?"),
            res.d,
            res.y,
            if res.bh { "B.H." } else { "A.H." }
        );
        (res, txt == want && h.date() == date)
    }))
    .map_err(|_| "panic".to_string())
}

pub fn gen(args: &Args) {
    let _ = std::fs::remove_file(format!("{}.hang", args.str("out", "c17.ndjson")));
    start_watchdog(args.str("out", "c17.ndjson"));
    let mut w = TraceWriter::create(&args.str("out", "c17.ndjson"));
    let first = args.str("from", "0001-01-01").parse::<NaiveDate>().unwrap();
    let last = args.str("to", "9999-12-31").parse::<NaiveDate>().unwrap();
    let mut date = first;
    let mut prev: Option<H> = None;
    let mut run = 0i64;
    let mut n_dates = 0u64;
    let mut n_panic = 0u64;
    loop {
        let rd = date.num_days_from_ce() as i64;
        let cwd = date.weekday().number_from_sunday() as i64;
        run += 1;
        n_dates += 1;
        match convert(date) {
            Ok((h, txt)) => {
                let plain = match prev {
                    Some(p) => {
                        txt && h.y == p.y
                            && h.m == p.m
                            && h.bh == p.bh
                            && h.d == p.d + 1
                            && h.wd == (p.wd % 7) + 1
                            && h.wd as i64 == cwd
                    }
                    None => false,
                };
                if !plain {
                    w.emit(json!({"ev": "hij", "out": "ret", "rd": rd,
                        "gy": date.year(), "gm": date.month(), "gd": date.day(),
                        "y": h.y, "m": h.m, "d": h.d, "bh": h.bh, "wd": h.wd, "cwd": cwd,
                        "run": run, "txt": txt}));
                    run = 0;
                }
                prev = Some(h);
            }
            Err(_) => {
                n_panic += 1;
                w.emit(json!({"ev": "hij", "out": "panic", "rd": rd,
                    "gy": date.year(), "gm": date.month(), "gd": date.day(),
                    "y": 0, "m": 0, "d": 0, "bh": false, "wd": 0, "cwd": cwd, "run": run, "txt": false}));
                run = 0;
                prev = None;
            }
        }
        if date == last {
            break;
        }
        date = date.succ_opt().unwrap();
    }
    let rd_end = last.num_days_from_ce() as i64 + 1;
    w.emit(json!({"ev": "hij", "out": "end", "rd": rd_end, "gy": 0, "gm": 0, "gd": 0,
        "y": 0, "m": 0, "d": 0, "bh": false, "wd": 0, "cwd": 0, "run": run + 1, "txt": true}));
    // random-order access: the conversion must not depend on what was converted before (the sweep above
    // is strictly ascending and would hide state that assumes it); each event is judged on its own
    let seed = args.num("seed", 1) as u64;
    let mut r = Rng::new(seed ^ 0xC17);
    let lo = first.num_days_from_ce() as i64;
    let hi = last.num_days_from_ce() as i64;
    let mut cur = r.range(lo, hi);
    let n_rand = args.num("random", 20000);
    for i in 0..n_rand {
        cur = match i % 6 {
            0 => r.range(lo, hi),
            1 => cur - 1,
            2 => cur + r.range(340, 370),
            3 => cur - r.range(28, 31),
            4 => cur,
            _ => r.range(lo, (lo + 230_000).min(hi)), // before / around the epoch
        }
        .clamp(lo, hi);
        let date = NaiveDate::from_num_days_from_ce_opt(cur as i32).unwrap();
        let cwd = date.weekday().number_from_sunday() as i64;
        match convert(date) {
            Ok((h, txt)) => w.emit(json!({"ev": "hijr", "out": "ret", "rd": cur,
                "gy": date.year(), "gm": date.month(), "gd": date.day(),
                "y": h.y, "m": h.m, "d": h.d, "bh": h.bh, "wd": h.wd, "cwd": cwd, "run": 0, "txt": txt})),
            Err(_) => {
                n_panic += 1;
                w.emit(json!({"ev": "hijr", "out": "panic", "rd": cur,
                    "gy": date.year(), "gm": date.month(), "gd": date.day(),
                    "y": 0, "m": 0, "d": 0, "bh": false, "wd": 0, "cwd": cwd, "run": 0, "txt": false}))
            }
        }
    }
    // the same conversions made from several threads at once, each thread working in its own era
    let mut handles = Vec::new();
    for t in 0..6u64 {
        let mut rr = Rng::new(seed ^ (0xC17C + t));
        let per = n_rand / 8;
        handles.push(std::thread::spawn(move || {
            let mut evs = Vec::new();
            let centre = lo + (hi - lo) / 7 * (t as i64 + 1);
            for i in 0..per {
                let rd = if i % 4 == 0 { rr.range(lo, hi) } else { (centre + rr.range(-800, 800)).clamp(lo, hi) };
                let date = NaiveDate::from_num_days_from_ce_opt(rd as i32).unwrap();
                let cwd = date.weekday().number_from_sunday() as i64;
                evs.push(match convert(date) {
                    Ok((h, txt)) => json!({"ev": "hijr", "out": "ret", "rd": rd, "gy": date.year(), "gm": date.month(), "gd": date.day(),
                        "y": h.y, "m": h.m, "d": h.d, "bh": h.bh, "wd": h.wd, "cwd": cwd, "run": 0, "txt": txt, "thread": t}),
                    Err(_) => json!({"ev": "hijr", "out": "panic", "rd": rd, "gy": date.year(), "gm": date.month(), "gd": date.day(),
                        "y": 0, "m": 0, "d": 0, "bh": false, "wd": 0, "cwd": cwd, "run": 0, "txt": false, "thread": t}),
                });
            }
            evs
        }));
    }
    let mut conc = 0;
    for hd in handles {
        for e in hd.join().unwrap_or_default() {
            conc += 1;
            w.emit(e);
        }
    }
    let n = w.finish();
    println!("{}", json!({"events": n, "dates": n_dates, "panics": n_panic, "random_order": n_rand, "concurrent": conc}));
}
