//! C15: hooked executions of prayer_times_dt_rng_block under perturbed schedules.

use std::sync::{Arc, Mutex};
use std::time::Duration;

use chrono::Datelike;
use islamic_prayer_times::verif_hooks::{self, Hook};
use islamic_prayer_times::*;
use serde_json::json;

use crate::common::*;
use crate::guard::*;

struct Recorder {
    events: Mutex<Vec<(String, &'static str, i64, i64)>>,
    rng: Mutex<Rng>,
    /// delay profile: 0 none, 1 yield, 2 random spin/sleep, 3 slow collector, 4 slow drop_tx,
    /// 5 slow workers, 6 slow sends, 7 fast everything but one random point class, 8 one straggling worker
    profile: u64,
    slow_point: &'static str,
    straggled: std::sync::atomic::AtomicBool,
}

const POINTS: [&str; 10] = [
    "decide_par", "spawn_coll", "coll_start", "partition", "spawn_worker", "w_start", "w_send",
    "drop_tx", "recv_ok", "recv_err",
];

impl Hook for Recorder {
    fn before(&self, name: &'static str, _a: i64, _b: i64) {
        let r = self.rng.lock().unwrap().next();
        let us = |max: u64| Duration::from_micros(r % (max + 1));
        match self.profile {
            0 => {}
            1 => std::thread::yield_now(),
            2 => match r % 4 {
                0 => {}
                1 => std::thread::yield_now(),
                2 => std::thread::sleep(us(200)),
                _ => {
                    let t = std::time::Instant::now();
                    let d = us(60);
                    while t.elapsed() < d {
                        std::hint::spin_loop();
                    }
                }
            },
            3 if name == "coll_start" || name == "recv_ok" => std::thread::sleep(us(3000)),
            4 if name == "drop_tx" => std::thread::sleep(us(5000)),
            5 if name == "w_start" => std::thread::sleep(us(3000)),
            6 if name == "w_send" => std::thread::sleep(us(1500)),
            // one straggling worker: far longer than any time-out a collector might use
            8 if name == "w_send" && !self.straggled.swap(true, std::sync::atomic::Ordering::SeqCst) => {
                std::thread::sleep(Duration::from_millis(900))
            }
            7 if name == self.slow_point => std::thread::sleep(us(4000)),
            _ => {
                if r % 8 == 0 {
                    std::thread::yield_now()
                }
            }
        }
    }
    fn record(&self, name: &'static str, a: i64, b: i64) {
        let th = std::thread::current();
        let id = format!("{:?}", th.id());
        self.events.lock().unwrap().push((id, name, a, b));
    }
}

pub fn gen(args: &Args) {
    let seed = args.num("seed", 1) as u64;
    let thorough = args.str("tier", "quick") == "thorough";
    let runs = args.num("runs", if thorough { 4000 } else { 320 });
    let mut r = Rng::new(seed ^ 0xC15);
    let mut w = TraceWriter::create(&args.str("out", "c15.ndjson"));
    let mut hangs = 0;
    let mut n_par = 0;
    let mut n_runs = 0;
    for run in 0..runs {
        let workers = match r.range(0, 5) {
            0 => r.range(1, 3),
            1 => r.range(2, 8),
            2 => 64,
            _ => r.range(1, 64),
        } as usize;
        let days = match r.range(0, 7) {
            0 => r.range(0, 3),
            1 => (workers as i64 + r.range(-2, 2)).max(0),
            2 => workers as i64 * r.range(1, 40) + r.range(-1, 1),
            3 => r.range(0, 70),
            4 => r.range(4000, 6000),
            _ => r.range(0, 1500),
        }
        .max(0);
        let thr = match r.range(0, 4) {
            0 => 0,
            1 => (days / workers as i64 + r.range(-1, 1)).max(0),
            _ => r.range(0, 400),
        } as usize;
        let mut start = date_of_dn(r.range(dn_of(ymd(1600, 1, 1)), dn_of(ymd(2380, 1, 1))));
        if run % 16 == 5 {
            // calendar seams of the library's Julian-day formula inside the range (1582 reform, year 0 / 1, Julian leap day)
            start = *[ymd(1582, 9, 20), ymd(1582, 10, 10), ymd(0, 12, 1), ymd(1500, 2, 1)][..].get((r.next() % 4) as usize).unwrap();
        }
        let end = start + chrono::Duration::days(days - 1);
        let lon = r.range(-1_800_000, 1_800_000);
        let site = Site { dlat: 0, lat: r.range(-480_000, 480_000), lon, el: 0, gmt: natural_gmt(lon) };
        let mut p = P::of_method(r.range(1, 8) as usize);
        if r.chance(1, 3) {
            p.pol = r.range(0, 14) as usize;
        }
        let params = p.params();
        let loc = site.location();
        let dr = DateRange::from(start..=end);
        let s0 = start.num_days_from_ce() as i64;
        w.emit(json!({"ev": "reset", "run": run, "n": days, "p": workers, "t": thr, "s0": s0,
            "site": site_json(&site), "meth": p.meth, "pol": p.pol}));
        n_runs += 1;
        let rec = Arc::new(Recorder {
            events: Mutex::new(Vec::new()),
            rng: Mutex::new(Rng::new(seed.wrapping_mul(1000003).wrapping_add(run as u64))),
            // profile 8 (a straggler sleeping 0.9 s) in a few runs only: it costs wall time
            profile: if run % 20 == 7 { 8 } else { r.next() % 8 },
            slow_point: POINTS[(r.next() % POINTS.len() as u64) as usize],
            straggled: std::sync::atomic::AtomicBool::new(false),
        });
        verif_hooks::set_parallelism(workers);
        verif_hooks::set_hook(Some(rec.clone()));
        let (p2, dr2) = (params.clone(), dr.clone());
        let g = guarded(Duration::from_secs(25), move || prayer_times_dt_rng_block(&p2, loc, &dr2, thr));
        verif_hooks::set_hook(None);
        let evs: Vec<_> = rec.events.lock().unwrap().clone();
        for (th, name, a, b) in evs.iter() {
            if *name == "decide_par" {
                n_par += 1;
            }
            w.emit(json!({"ev": name, "a": a, "b": b, "th": th, "run": run}));
        }
        match g {
            Guarded::Ret(m) => {
                let seq = prayer_times_dt_rng(&params, loc, &dr);
                let n = m.len() as i64;
                let first = m.keys().next().map(|d| d.num_days_from_ce() as i64).unwrap_or(0);
                let last = m.keys().next_back().map(|d| d.num_days_from_ce() as i64).unwrap_or(0);
                let mut contig = true;
                let mut prev: Option<i64> = None;
                for d in m.keys() {
                    let x = d.num_days_from_ce() as i64;
                    if let Some(pv) = prev {
                        if x != pv + 1 {
                            contig = false;
                        }
                    }
                    prev = Some(x);
                }
                w.emit(json!({"ev": "ret", "out": "ret", "n": n, "first": first, "last": last,
                    "contig": contig, "equal": m == seq, "run": run}));
            }
            Guarded::Panic(msg) => {
                w.emit(json!({"ev": "ret", "out": "panic", "n": 0, "first": 0, "last": 0,
                    "contig": false, "equal": false, "run": run, "msg": msg}));
            }
            Guarded::Hang => {
                hangs += 1;
                w.emit(json!({"ev": "ret", "out": "hang", "n": 0, "first": 0, "last": 0,
                    "contig": false, "equal": false, "run": run}));
                if hangs >= 2 {
                    break;
                }
            }
        }
    }
    verif_hooks::set_parallelism(0);
    let n = w.finish();
    println!("{}", json!({"events": n, "runs": n_runs, "parallel_runs": n_par, "hangs": hangs}));
    if hangs > 0 {
        std::process::exit(0);
    }
}


// ------------------------------------------------------------------------------------------
// spec -> impl: replay TLC-generated schedules through the hook points

struct Controller {
    sched: Vec<(String, i64)>,
    pos: Mutex<usize>,
    cv: std::sync::Condvar,
    starts: Vec<i64>,
    stuck: std::sync::atomic::AtomicBool,
    events: Mutex<Vec<(String, &'static str, i64, i64)>>,
}

impl Controller {
    fn label(&self, name: &'static str, a: i64) -> (String, i64) {
        let idx = || self.starts.iter().position(|s| *s == a).map(|i| i as i64 + 1).unwrap_or(-1);
        match name {
            "decide_seq" | "decide_par" => ("decide".to_string(), 0),
            "spawn_worker" | "w_start" | "w_send" | "recv_ok" => (name.to_string(), idx()),
            other => (other.to_string(), 0),
        }
    }
}

impl Hook for Controller {
    fn before(&self, name: &'static str, a: i64, _b: i64) {
        use std::sync::atomic::Ordering;
        let me = self.label(name, a);
        let mut pos = self.pos.lock().unwrap();
        let deadline = std::time::Instant::now() + Duration::from_millis(1500);
        loop {
            if self.stuck.load(Ordering::SeqCst) {
                return;
            }
            if *pos < self.sched.len() && self.sched[*pos] == me {
                return;
            }
            let now = std::time::Instant::now();
            if now >= deadline {
                self.stuck.store(true, Ordering::SeqCst);
                self.cv.notify_all();
                return;
            }
            let (g, _) = self.cv.wait_timeout(pos, deadline - now).unwrap();
            pos = g;
        }
    }
    fn record(&self, name: &'static str, a: i64, b: i64) {
        let th = format!("{:?}", std::thread::current().id());
        self.events.lock().unwrap().push((th, name, a, b));
        *self.pos.lock().unwrap() += 1;
        self.cv.notify_all();
    }
}

pub fn replay(args: &Args) {
    let seed = args.num("seed", 1) as u64;
    let mut r = Rng::new(seed ^ 0x5C15);
    let scheds: Vec<(i64, usize, usize, Vec<(String, i64)>)> =
        serde_json::from_str(&std::fs::read_to_string(args.str("sched", "sched.json")).unwrap()).unwrap();
    let mut w = TraceWriter::create(&args.str("out", "c15s.ndjson"));
    let (mut followed, mut unrealised, mut hangs, mut inapplicable) = (0, 0, 0, 0);
    for (run, (days, workers, thr, sched)) in scheds.into_iter().enumerate() {
        let start = date_of_dn(r.range(dn_of(ymd(1700, 1, 1)), dn_of(ymd(2300, 1, 1))));
        let end = start + chrono::Duration::days(days - 1);
        let site = Site { dlat: 0, lat: r.range(-400_000, 400_000), lon: 0, el: 0, gmt: 0 };
        let p = P::of_method(r.range(1, 6) as usize);
        let params = p.params();
        let loc = site.location();
        let dr = DateRange::from(start..=end);
        let s0 = start.num_days_from_ce() as i64;
        let starts: Vec<i64> = dr.partition(workers).iter().map(|b| b.start_date().num_days_from_ce() as i64).collect();
        // the schedule's logged actions, without the final "ret" (the public call's return)
        let want: Vec<(String, i64)> = sched.iter().filter(|(n, _)| n != "ret").cloned().collect();
        // the model's schedules assume the block structure of the present partition(); where the code's partition of this
        // range has another number of blocks the schedule does not apply (that is C14's business, not a C15 violation)
        let want_workers = want.iter().filter(|(n, _)| n == "spawn_worker").count();
        let par = want.iter().any(|(n, _)| n == "partition");
        if par && want_workers != starts.len() {
            inapplicable += 1;
            continue;
        }
        let ctl = Arc::new(Controller {
            sched: want.clone(),
            pos: Mutex::new(0),
            cv: std::sync::Condvar::new(),
            starts,
            stuck: std::sync::atomic::AtomicBool::new(false),
            events: Mutex::new(Vec::new()),
        });
        w.emit(json!({"ev": "reset", "run": run, "n": days, "p": workers, "t": thr, "s0": s0, "replay": true}));
        verif_hooks::set_parallelism(workers);
        verif_hooks::set_hook(Some(ctl.clone()));
        let (p2, dr2) = (params.clone(), dr.clone());
        let g = guarded(Duration::from_secs(25), move || prayer_times_dt_rng_block(&p2, loc, &dr2, thr));
        verif_hooks::set_hook(None);
        let evs: Vec<_> = ctl.events.lock().unwrap().clone();
        let got: Vec<(String, i64)> = evs.iter().map(|(_, n, a, _)| ctl.label(n, *a)).collect();
        let ok = got == want && !ctl.stuck.load(std::sync::atomic::Ordering::SeqCst);
        // a schedule that assumes the other sequential / parallel decision does not apply either (the decision rule is
        // not part of C15; the trace specification notes it)
        let got_par = evs.iter().any(|(_, n, _, _)| *n == "decide_par");
        let want_par = want.iter().any(|(n, _)| n == "spawn_coll");
        if ok {
            followed += 1;
        } else if got_par != want_par {
            inapplicable += 1;
        } else {
            unrealised += 1;
        }
        for (th, name, a, b) in evs.iter() {
            w.emit(json!({"ev": name, "a": a, "b": b, "th": th, "run": run}));
        }
        match g {
            Guarded::Ret(m) => {
                let seq = prayer_times_dt_rng(&params, loc, &dr);
                let n = m.len() as i64;
                let first = m.keys().next().map(|d| d.num_days_from_ce() as i64).unwrap_or(0);
                let last = m.keys().next_back().map(|d| d.num_days_from_ce() as i64).unwrap_or(0);
                let contig = n == 0 || last - first + 1 == n;
                w.emit(json!({"ev": "ret", "out": "ret", "n": n, "first": first, "last": last,
                    "contig": contig, "equal": m == seq, "run": run, "followed": ok}));
            }
            Guarded::Panic(msg) => w.emit(json!({"ev": "ret", "out": "panic", "n": 0, "first": 0, "last": 0,
                "contig": false, "equal": false, "run": run, "msg": msg, "followed": ok})),
            Guarded::Hang => {
                hangs += 1;
                w.emit(json!({"ev": "ret", "out": "hang", "n": 0, "first": 0, "last": 0,
                    "contig": false, "equal": false, "run": run, "followed": ok}));
                if hangs >= 2 {
                    break;
                }
            }
        }
    }
    verif_hooks::set_parallelism(0);
    let n = w.finish();
    println!("{}", json!({"events": n, "followed": followed, "unrealised": unrealised, "hangs": hangs, "inapplicable": inapplicable}));
    if hangs > 0 {
        std::process::exit(0);
    }
}
