//! Event generators for the day-pipeline properties C05, C07, C08, C09, C10, C11, C12.
//! Each event is one experiment on the public API; TLC (PrayerDayTrace.tla) judges it.

use std::time::Instant;

use chrono::{Datelike, NaiveDate};
use serde_json::{json, Value};

use crate::common::*;

pub fn rand_date(r: &mut Rng) -> NaiveDate {
    match r.range(0, 9) {
        0 => {
            // around the March equinox (RA wrap)
            let y = r.range(1600, 2399) as i32;
            ymd(y, 3, r.range(17, 24) as u32)
        }
        1 => {
            let y = r.range(1600, 2398) as i32;
            *r_pick(r, &[ymd(y, 12, 30), ymd(y, 12, 31), ymd(y + 1, 1, 1), ymd(y + 1, 1, 2), ymd(y, 2, 28), ymd(y, 3, 1)])
        }
        2 => {
            // solstices
            let y = r.range(1600, 2399) as i32;
            ymd(y, if r.chance(1, 2) { 6 } else { 12 }, r.range(15, 27) as u32)
        }
        3 => {
            let y = *r_pick(r, &[1600, 2000, 2024, 2396, 1904, 2096]);
            ymd(y, 2, 29)
        }
        _ => date_of_dn(r.range(dn_of(ymd(1600, 1, 1)), dn_of(ymd(2399, 12, 31)))),
    }
}

fn r_pick<'a, T>(r: &mut Rng, xs: &'a [T]) -> &'a T {
    &xs[(r.next() % xs.len() as u64) as usize]
}

/// site with |lat| <= max_lat (1e-4 deg), gmt within `zone_h` hours of the natural zone
pub fn rand_site(r: &mut Rng, max_lat: i64, zone_h: i64) -> Site {
    let lon = match r.range(0, 9) {
        0 => *r_pick(r, &[-1_800_000, 1_800_000, 0, 1_799_999, -1_799_999]),
        _ => r.range(-1_800_000, 1_800_000),
    };
    let lat = match r.range(0, 9) {
        0 => *r_pick(r, &[max_lat, -max_lat, 0]),
        1 => r.range(-max_lat, max_lat) / 10_000 * 10_000,
        _ => r.range(-max_lat, max_lat),
    };
    let nat = natural_gmt(lon);
    let gmt = (nat + r.range(-zone_h * 2, zone_h * 2) * 1800).clamp(-12 * 3600, 12 * 3600);
    let el = match r.range(0, 4) {
        0 => 0,
        1 => *r_pick(r, &[-420, 8848]),
        _ => r.range(-100, 4000),
    };
    Site { dlat: 0, lat, lon, el, gmt }
}

fn rand_weather(r: &mut Rng) -> Option<(i64, i64)> {
    match r.range(0, 5) {
        0 | 1 => None,
        2 => Some((*r_pick(r, &[1000, 10500]), *r_pick(r, &[-900, 570]))),
        _ => Some((r.range(1000, 10500), r.range(-900, 570))),
    }
}

fn res_json(o: &Out) -> Value {
    json!({"t": o.t, "x": o.x})
}

fn base_event(ev: &str, site: &Site, date: NaiveDate, p: &P) -> Value {
    json!({"ev": ev, "site": site_json(site), "date": date_json(date), "p": p.json()})
}

fn custom_angles(r: &mut Rng, p: &mut P) {
    // custom Fajr/Isha angles in [9, 21] on the 0.01 degree grid, Imsaak angle in [0.5, 3]
    p.fa = r.range(900, 2100) * 100;
    p.ia = r.range(900, 2100) * 100;
    p.ima = r.range(50, 300) * 100;
    p.ii = 0;
    p.fi = 0;
}

// ------------------------------------------------------------------------------------------
// C05

pub fn gen_c05(args: &Args) {
    let seed = args.num("seed", 1) as u64;
    session_start(seed);
    let n = args.num("n", 6000);
    let mut r = Rng::new(seed ^ 0xC05);
    let mut w = TraceWriter::create(&args.str("out", "c05.ndjson"));
    for _ in 0..n {
        let site = rand_site(&mut r, 600_000, 3);
        let date = rand_date(&mut r);
        let mut p = P::of_method(r.range(1, 8) as usize);
        if r.chance(1, 4) {
            custom_angles(&mut r, &mut p);
        }
        p.rnd = r.range(0, 3) as usize;
        // no policy, the default policy, or any other policy whose unflagged entries are conventional (half-of-night is
        // exempt from C08's flag clause; minutes-from-maghrib 'invalid' is quantified over angle-based methods)
        p.pol = match r.range(0, 2) {
            0 => 0,
            1 => 6,
            _ => *r_pick(&mut r, &[1usize, 2, 3, 4, 5, 7, 8, 9, 10, 13, 14]),
        };
        if p.pol == 14 && p.ii != 0 {
            p = P { pol: 14, rnd: p.rnd, ..P::of_method(r.range(1, 6) as usize) };
        }
        p.nl = if r.chance(1, 2) { 485_000 } else { r.range(-900_000, 900_000) };
        p.w = rand_weather(&mut r);
        let o = call(&site, date, &p);
        let mut pn = p.clone();
        pn.pol = 0;
        let a = call(&site, date, &pn);
        w.emit(merge(&[base_event("c05", &site, date, &p), json!({"out": o.out, "r": res_json(&o), "a": res_json(&a)})]));
    }
    // boundary probes around the latitude where Fajr / Isha stop existing (policy None and the default policy)
    let mut probes = 0;
    let want = args.num("boundaries", 8);
    let (mut found, mut i) = (0, 0);
    while found < want && i < want * 20 {
        i += 1;
        let mut p = P::of_method(r.range(1, 6) as usize);
        if r.chance(1, 3) {
            custom_angles(&mut r, &mut p);
        }
        p.rnd = r.range(0, 3) as usize;
        let date = probe_date(&mut r);
        let sites: Vec<Site> = boundary_probes(&mut r, date, &p, if i % 2 == 0 { 1 } else { 6 }, 40, 3)
            .into_iter().filter(|s| s.lat.abs() <= 600_000).collect();
        if !sites.is_empty() {
            found += 1;
        }
        for site in sites {
            p.pol = if r.chance(1, 2) { 0 } else { 6 };
            let o = call(&site, date, &p);
            let mut pn = p.clone();
            pn.pol = 0;
            let a = call(&site, date, &pn);
            probes += 1;
            w.emit(merge(&[base_event("c05", &site, date, &p), json!({"out": o.out, "r": res_json(&o), "a": res_json(&a)})]));
        }
    }
    let session = session_flush(&mut w);
    let k = w.finish();
    println!("{}", json!({"session": session, "events": k, "boundary_probes": probes}));
}

// ------------------------------------------------------------------------------------------
// C07

pub fn gen_c07(args: &Args) {
    let seed = args.num("seed", 1) as u64;
    session_start(seed);
    let n = args.num("n", 20000);
    let mut r = Rng::new(seed ^ 0xC07);
    let mut w = TraceWriter::create(&args.str("out", "c07.ndjson"));
    let lats = [900_000, -900_000, 899_900, -899_900, 665_700, 665_600, -665_600, 600_000, -600_000, 0, 700_000, 895_000];
    let mut slowest = 0u128;
    let mut panics = 0;
    for i in 0..n {
        let mut site = rand_site(&mut r, 900_000, 12);
        if r.chance(1, 2) {
            site.lat = *r_pick(&mut r, &lats);
        }
        let date = if r.chance(1, 3) {
            let y = r.range(1600, 2399) as i32;
            *r_pick(&mut r, &[ymd(y, 6, 21), ymd(y, 12, 21), ymd(y, 3, 20), ymd(y, 9, 23), ymd(y, 1, 1), ymd(y, 1, 5), ymd(y, 12, 31)])
        } else {
            rand_date(&mut r)
        };
        let mut p = P::of_method((i % 9) as usize);
        p.pol = r.range(0, 14) as usize;
        p.nl = *r_pick(&mut r, &[900_000, -900_000, 485_000, 0, -485_000, 0]);
        if r.chance(1, 3) {
            p.nl = r.range(-900_000, 900_000);
        }
        p.rnd = r.range(0, 3) as usize;
        if r.chance(1, 2) {
            p.fa = *r_pick(&mut r, &[0, 250_000, 180_000]);
            if r.chance(1, 2) {
                p.fa = r.range(0, 250_000);
            }
        }
        if r.chance(1, 2) {
            p.ia = *r_pick(&mut r, &[0, 250_000, 170_000]);
            if r.chance(1, 2) {
                p.ia = r.range(0, 250_000);
            }
        }
        if r.chance(1, 3) {
            p.ima = r.range(0, 250_000);
        }
        if r.chance(1, 3) {
            p.fi = *r_pick(&mut r, &[0, 180 * 60, 90 * 60]);
            if r.chance(1, 2) {
                p.fi = r.range(0, 180 * 60);
            }
        }
        if r.chance(1, 3) {
            p.ii = *r_pick(&mut r, &[0, 180 * 60, 90 * 60]);
            if r.chance(1, 2) {
                p.ii = r.range(0, 180 * 60);
            }
        }
        if r.chance(1, 3) {
            p.imi = r.range(0, 180 * 60);
        }
        if r.chance(1, 2) {
            for k in 0..7 {
                p.off[k] = match r.range(0, 3) {
                    0 => 0,
                    1 => *r_pick(&mut r, &[-90000, 90000]),
                    _ => r.range(-90000, 90000),
                };
            }
        }
        p.sch = r.range(1, 2) as usize;
        p.w = rand_weather(&mut r);
        let t0 = Instant::now();
        let o = call(&site, date, &p);
        let ms = t0.elapsed().as_millis();
        slowest = slowest.max(ms);
        if o.out == "panic" {
            panics += 1;
        }
        w.emit(merge(&[
            base_event("c07", &site, date, &p),
            json!({"out": o.out, "r": res_json(&o), "ms": ms as i64, "msg": o.msg}),
        ]));
    }
    // threshold days: at polar and sub-polar latitudes, the days on which an event starts / stops existing
    // (found by scanning a year with policy None), +-2 days, under every policy
    let mut threshold_calls = 0;
    for _ in 0..args.num("threshold_sites", 60) {
        let mut site = rand_site(&mut r, 899_000, 2);
        site.lat = *r_pick(&mut r, &[665_600i64, 670_000, 682_000, 695_000, 720_000, 750_000, 780_000, 825_018, 850_000, 880_000, 895_000, 640_000])
            * if r.chance(1, 2) { 1 } else { -1 } + r.range(-3000, 3000);
        site.gmt = natural_gmt(site.lon);
        let y = r.range(1600, 2399) as i32;
        let mut base = P::of_method(r.range(1, 8) as usize);
        base.pol = 0;
        base.rnd = 0;
        let mut prev: Option<[bool; 7]> = None;
        let mut flips: Vec<NaiveDate> = Vec::new();
        let mut d = ymd(y, 1, 1);
        while d.year() == y {
            let o = raw_call(&site, d, &base);
            let v: [bool; 7] = std::array::from_fn(|i| o.t[i] >= 0);
            if let Some(pv) = prev {
                if pv != v {
                    flips.push(d);
                }
            }
            prev = Some(v);
            d = d.succ_opt().unwrap();
        }
        for f in flips.into_iter().take(8) {
            for dd in -2i64..=2 {
                let date = f + chrono::Duration::days(dd);
                for pol in 0..15usize {
                    let mut p = base.clone();
                    p.pol = pol;
                    p.nl = *r_pick(&mut r, &[485_000i64, -485_000, 0, 900_000, 700_000]);
                    p.rnd = r.range(0, 3) as usize;
                    if r.chance(1, 4) {
                        p.fi = r.range(0, 180) * 60;
                    }
                    if r.chance(1, 4) {
                        p.ii = r.range(0, 180) * 60;
                    }
                    let t0 = Instant::now();
                    let o = call(&site, date, &p);
                    let ms = t0.elapsed().as_millis();
                    slowest = slowest.max(ms);
                    if o.out == "panic" {
                        panics += 1;
                    }
                    threshold_calls += 1;
                    w.emit(merge(&[
                        base_event("c07", &site, date, &p),
                        json!({"out": o.out, "r": res_json(&o), "ms": ms as i64, "msg": o.msg}),
                    ]));
                }
            }
        }
    }
    let session = session_flush(&mut w);
    let k = w.finish();
    println!("{}", json!({"session": session, "events": k, "slowest_ms": slowest as i64, "panics": panics, "threshold_day_calls": threshold_calls}));
}

// ------------------------------------------------------------------------------------------
// C08

/// a date/site on which twilight is likely to be missing for the method (high latitude summer)
pub fn twilight_edge_case(r: &mut Rng, max_lat: i64) -> (Site, NaiveDate) {
    let mut site = rand_site(r, max_lat, 1);
    let north = r.chance(1, 2);
    let lat = r.range(460_000, max_lat);
    site.lat = if north { lat } else { -lat };
    let y = r.range(1600, 2399) as i32;
    // local summer, +- 80 days around the solstice
    let sol = if north { ymd(y, 6, 21) } else { ymd(y, 12, 21) };
    let date = sol + chrono::Duration::days(r.range(-80, 80));
    let date = if date.year() > 2399 { ymd(2399, 12, 31) } else { date };
    (site, date)
}

pub fn gen_c08(args: &Args) {
    let seed = args.num("seed", 1) as u64;
    session_start(seed);
    let n = args.num("n", 15000);
    let mut r = Rng::new(seed ^ 0xC08);
    let mut w = TraceWriter::create(&args.str("out", "c08.ndjson"));
    for i in 0..n {
        let (site, date) = if i % 3 != 0 {
            twilight_edge_case(&mut r, 700_000)
        } else {
            (rand_site(&mut r, 700_000, 2), rand_date(&mut r))
        };
        let mut p = P::of_method(r.range(1, 8) as usize);
        p.pol = r.range(1, 14) as usize;
        // half-of-night and minutes-from-maghrib 'invalid' consume the intervals: angle-based methods only
        if [11usize, 12, 14].contains(&p.pol) && (p.meth == 7 || p.meth == 8) {
            p = P { pol: p.pol, ..P::of_method(r.range(1, 6) as usize) };
        }
        // the substitute latitude is any latitude the constructor accepts (one sixth beyond +-60)
        p.nl = if r.chance(1, 2) { 485_000 } else if r.chance(1, 3) { r.range(-900_000, 900_000) } else { r.range(-600_000, 600_000) };
        p.rnd = r.range(0, 3) as usize;
        if r.chance(1, 3) {
            for k in 0..7 {
                p.off[k] = r.range(-90, 90) * 60;
            }
        }
        let mut pn = p.clone();
        pn.pol = 0;
        let a = call(&site, date, &pn);
        let b = call(&site, date, &p);
        if !(a.ok() && b.ok()) {
            // a panic is C07's business; record it there
            continue;
        }
        w.emit(merge(&[base_event("c08", &site, date, &p), json!({"a": res_json(&a), "b": res_json(&b)})]));
    }
    // band stratum: interval-Isha methods where the Sun culminates between the sunrise altitude (-0.83) and 0 degrees
    // (|lat| 66.5..67.6 around the hemisphere's winter solstice): Maghrib exists, the hidden angle-0 Isha does not.
    // This is where the known findings F2 / F3 live, so every run meets them and anything else there is reported.
    for i in 0..(n / 25) {
        let north = r.chance(1, 2);
        let y = r.range(1600, 2399) as i32;
        let sol = if north { ymd(y, 12, 21) } else { ymd(y, 6, 21) };
        let date = sol + chrono::Duration::days(r.range(-12, 12));
        let lat = (665_000 + r.range(0, 11_000)) * if north { 1 } else { -1 };
        let lon = r.range(-1_800_000, 1_800_000);
        let site = Site { dlat: 0, lat, lon, el: if r.chance(1, 2) { 0 } else { r.range(0, 3000) }, gmt: natural_gmt(lon) };
        let mut p = P::of_method(7 + (i % 2) as usize);
        p.pol = *r_pick(&mut r, &[1usize, 2, 3, 4, 5, 6, 7, 8, 9, 10, 13]);
        p.nl = if r.chance(1, 2) { 485_000 } else { r.range(-600_000, 600_000) };
        // every third: the band at the SUBSTITUTE latitude instead (nearest-latitude policies, site anywhere below it)
        let (site, mut p) = if i % 3 == 2 {
            let mut p = p;
            p.pol = *r_pick(&mut r, &[2usize, 3, 4]);
            p.nl = lat;
            (Site { lat: r.range(-640_000, 640_000), ..site }, p)
        } else {
            (site, p)
        };
        p.rnd = r.range(0, 3) as usize;
        let mut pn = p.clone();
        pn.pol = 0;
        let a = call(&site, date, &pn);
        let b = call(&site, date, &p);
        if !(a.ok() && b.ok()) {
            continue;
        }
        w.emit(merge(&[base_event("c08", &site, date, &p), json!({"a": res_json(&a), "b": res_json(&b)})]));
    }
    let session = session_flush(&mut w);
    let k = w.finish();
    println!("{}", json!({"session": session, "events": k}));
}

// ------------------------------------------------------------------------------------------
// C09

pub fn gen_c09(args: &Args) {
    let seed = args.num("seed", 1) as u64;
    session_start(seed);
    let n = args.num("n", 2000);
    let full_years = args.num("years", 0);
    let mut r = Rng::new(seed ^ 0xC09);
    let mut w = TraceWriter::create(&args.str("out", "c09.ndjson"));
    let mut cases: Vec<(Site, NaiveDate, P)> = Vec::new();
    let angle_methods = [1usize, 2, 3, 4, 5, 6];
    // every day of whole years at fixed latitudes (both hemispheres, leap and common years)
    for k in 0..full_years {
        let y = *r_pick(&mut r, &[2023, 2024, 1900, 2000, 1600, 2399, 2100, 2020]);
        let lat = *r_pick(&mut r, &[520_000i64, 580_000, 630_000, -520_000, -580_000, -630_000, 640_000, -640_000, 490_000, -550_000]);
        let lon = r.range(-1_800_000, 1_800_000);
        let site = Site { dlat: 0, lat, lon, el: 0, gmt: natural_gmt(lon) };
        let mut p = P::of_method(angle_methods[(k as usize) % 6]);
        p.pol = if k % 3 == 0 { 5 } else { 6 };
        p.rnd = r.range(0, 3) as usize;
        let mut d = ymd(y, 1, 1);
        while d.year() == y {
            cases.push((site, d, p.clone()));
            d = d.succ_opt().unwrap();
        }
    }
    for i in 0..n {
        let (mut site, mut date) = twilight_edge_case(&mut r, 640_000);
        if i % 4 == 0 {
            // January / December in the southern summer, June / July in the northern
            site.lat = -r.range(500_000, 640_000);
            let y = r.range(1600, 2399) as i32;
            date = if r.chance(1, 2) { ymd(y, 1, r.range(1, 31) as u32) } else { ymd(y, 12, r.range(1, 31) as u32) };
        }
        let mut p = P::of_method(*r_pick(&mut r, &angle_methods));
        p.pol = if r.chance(1, 3) { 5 } else { 6 };
        p.rnd = r.range(0, 3) as usize;
        if r.chance(1, 4) {
            for k in 0..7 {
                p.off[k] = r.range(-30, 30) * 60;
            }
        }
        cases.push((site, date, p));
    }
    let mut searched = 0;
    for (site, date, p) in cases {
        let mut pn = p.clone();
        pn.pol = 0;
        let ylen: i64 = if NaiveDate::from_ymd_opt(date.year(), 2, 29).is_some() { 366 } else { 365 };
        let mut nb: Vec<Value> = Vec::new();
        let c0 = call(&site, date, &pn);
        if !c0.ok() {
            continue;
        }
        nb.push(json!({"o": 0, "t": c0.t}));
        let good = |o: &Out| o.t[1] >= 0 && o.t[6] >= 0;
        let mut found = good(&c0);
        let mut m = 0i64;
        while !found && m < ylen {
            m += 1;
            let dm = date - chrono::Duration::days(m);
            let dp = date + chrono::Duration::days(m);
            if dm.year() < 1590 || dp.year() > 2405 {
                break;
            }
            let cm = call(&site, dm, &pn);
            let cp = call(&site, dp, &pn);
            if !(cm.ok() && cp.ok()) {
                break;
            }
            found = good(&cm) || good(&cp);
            nb.push(json!({"o": -m, "t": cm.t}));
            nb.push(json!({"o": m, "t": cp.t}));
        }
        if m > 0 {
            searched += 1;
        }
        let b = call(&site, date, &p);
        if !b.ok() {
            continue;
        }
        w.emit(merge(&[
            base_event("c09", &site, date, &p),
            json!({"ord": date.ordinal(), "ylen": ylen, "nb": nb, "b": res_json(&b)}),
        ]));
    }
    let session = session_flush(&mut w);
    let k = w.finish();
    println!("{}", json!({"session": session, "events": k, "searched": searched}));
}

// ------------------------------------------------------------------------------------------
// C10

pub fn gen_c10(args: &Args) {
    let seed = args.num("seed", 1) as u64;
    session_start(seed);
    let n = args.num("n", 8000);
    let mut r = Rng::new(seed ^ 0xC10);
    let mut w = TraceWriter::create(&args.str("out", "c10.ndjson"));
    let pols = [1usize, 2, 3, 4, 7, 8, 9, 10, 13, 14];
    let mut fired = 0;
    for i in 0..n {
        let mut p = P::of_method(r.range(1, 8) as usize);
        p.pol = pols[(i as usize) % pols.len()];
        let needs_missing = [1usize, 4, 8, 10, 14].contains(&p.pol);
        let (site, date) = if needs_missing || r.chance(1, 3) {
            // custom angles up to 21 degrees provoke missing twilight below 60 degrees
            if r.chance(1, 2) && p.ii == 0 {
                p.fa = r.range(1500, 2100) * 100;
                p.ia = r.range(1500, 2100) * 100;
            }
            twilight_edge_case(&mut r, 600_000)
        } else {
            (rand_site(&mut r, 600_000, 0), rand_date(&mut r))
        };
        let mut site = site;
        site.gmt = natural_gmt(site.lon);
        p.nl = match r.range(0, 5) {
            0 => 485_000,
            1 => -485_000,
            2 => *r_pick(&mut r, &[0i64, 0, 1, -1, 600_000, -600_000, 100_000]),   // the Equator is a latitude like any other
            _ => r.range(-600_000, 600_000),
        };
        p.rnd = 0;
        if [2usize, 3, 4].contains(&p.pol) && r.chance(1, 5) {
            // a substitute latitude that is (almost) the site's own: within 0.01 degree, not equal
            let d = r.range(1, 99) * if r.chance(1, 2) { 1 } else { -1 };
            p.nl = (site.lat + d).clamp(-600_000, 600_000);
        }
        if p.pol == 14 && p.fi == 0 && p.ii == 0 {
            // minutes-from-maghrib 'invalid' needs intervals to say anything
            p.fi = r.range(60, 120) * 60;
            p.ii = r.range(60, 120) * 60;
        }
        let mut raw = p.raw();
        raw.fi = 0;
        raw.ii = 0;
        raw.imi = 0;
        let here = call(&site, date, &raw);
        let mut nl_site = site;
        nl_site.lat = p.nl;
        let nl = if [2usize, 3, 4].contains(&p.pol) { Some(call(&nl_site, date, &raw)) } else { None };
        let b = call(&site, date, &p);
        if !(here.ok() && b.ok() && nl.as_ref().map_or(true, |x| x.ok())) {
            continue;
        }
        // the property's precondition: Shurooq < Dhuhr < Maghrib exist and lie inside the civil day
        let (sh, dh, mg) = (here.t[2], here.t[3], here.t[5]);
        if !(sh >= 0 && mg >= 0 && sh < dh && dh < mg) {
            continue;
        }
        if (1..7).any(|k| b.x[k] == 1) {
            fired += 1;
        }
        w.emit(merge(&[
            base_event("c10", &site, date, &p),
            json!({"here": here.t, "nl": nl.map(|x| x.t.to_vec()).unwrap_or_default(), "b": res_json(&b)}),
        ]));
    }
    let session = session_flush(&mut w);
    let k = w.finish();
    println!("{}", json!({"session": session, "events": k, "policy_fired": fired}));
}

// ------------------------------------------------------------------------------------------
// C11: every second of the day through fractional-minute offsets

pub fn gen_c11(args: &Args) {
    let seed = args.num("seed", 1) as u64;
    session_start(seed);
    let stride = args.num("stride", 1);
    let sites = args.num("sites", 1);
    let mut r = Rng::new(seed ^ 0xC11);
    let mut w = TraceWriter::create(&args.str("out", "c11.ndjson"));
    let mut seconds_seen = std::collections::HashSet::new();
    for s in 0..sites {
        let site = if s == 0 {
            Site { dlat: 0, lat: 390_182, lon: -772_086, el: 0, gmt: -5 * 3600 }
        } else {
            rand_site(&mut r, 550_000, 1)
        };
        let date = if s == 0 { ymd(2023, 2, 6) } else { rand_date(&mut r) };
        let mut k = (seed as i64 + s) % stride.max(1);
        while k < 86400 {
            let mut p = P::of_method(*r_pick(&mut r, &[1usize, 5, 6, 7]));
            p.pol = if r.chance(1, 8) { 6 } else { 0 };
            // the rounding rule holds for every parameter set: vary the interval definitions too
            // (whole and fractional minutes), so Imsaak / Fajr / Isha are reached through each branch
            if r.chance(1, 3) {
                p.imi = *r_pick(&mut r, &[450i64, 90, 600, 37, 1234]);
            }
            if r.chance(1, 6) {
                p.fi = *r_pick(&mut r, &[4800i64, 4530, 75]);
            }
            if r.chance(1, 6) {
                p.ii = *r_pick(&mut r, &[5400i64, 5430, 45]);
            }
            // k/60 minutes on every key (+- 1500 min on some to force negative and >= 24 h hours)
            for j in 0..7 {
                p.off[j] = k + match r.range(0, 5) {
                    0 => -90000,
                    1 => 90000,
                    _ => 0,
                };
            }
            p.rnd = 0;
            let r0 = call(&site, date, &p);
            if r0.ok() {
                for pp in 0..7 {
                    if r0.t[pp] >= 0 {
                        seconds_seen.insert((pp, r0.t[pp]));
                    }
                }
                for mode in 1..=3usize {
                    p.rnd = mode;
                    let rm = call(&site, date, &p);
                    w.emit(merge(&[
                        base_event("c11", &site, date, &p),
                        json!({"mode": mode, "r0": res_json(&r0), "r": res_json(&rm), "out": rm.out}),
                    ]));
                }
            }
            k += stride.max(1);
        }
        // boundary seconds of a few minutes: all 60 seconds x last minutes of hour/day
        for base in [0i64, 59 * 60, 23 * 3600 + 59 * 60, 12 * 3600 + 29 * 60, 3600 - 60] {
            for sec in 0..60 {
                let mut p = P::of_method(5);
                p.pol = 0;
                p.rnd = 0;
                let r00 = call(&site, date, &p);
                // choose offsets so that prayer j lands exactly on base+sec (up to the sub-second phase)
                for j in 0..7 {
                    if r00.t[j] >= 0 {
                        p.off[j] = base + sec - r00.t[j];
                    }
                }
                let r0 = call(&site, date, &p);
                if !r0.ok() {
                    continue;
                }
                for mode in 1..=3usize {
                    p.rnd = mode;
                    let rm = call(&site, date, &p);
                    w.emit(merge(&[
                        base_event("c11", &site, date, &p),
                        json!({"mode": mode, "r0": res_json(&r0), "r": res_json(&rm), "out": rm.out}),
                    ]));
                }
            }
        }
    }
    let session = session_flush(&mut w);
    let k = w.finish();
    println!("{}", json!({"session": session, "events": k, "distinct_prayer_seconds": seconds_seen.len()}));
}

// ------------------------------------------------------------------------------------------
// C12

pub fn gen_c12(args: &Args) {
    let seed = args.num("seed", 1) as u64;
    session_start(seed);
    let n = args.num("n", 12000);
    let mut r = Rng::new(seed ^ 0xC12);
    let mut w = TraceWriter::create(&args.str("out", "c12.ndjson"));
    let kinds = ["off", "off", "iint", "fint", "imint", "school", "fang", "iang", "weather", "defw", "defw", "defw", "defw", "xfajr", "ipol"];
    for i in 0..n {
        let kind = kinds[(i as usize) % kinds.len()];
        let (site, date) = if kind == "xfajr" || kind == "ipol" || r.chance(1, 5) {
            twilight_edge_case(&mut r, 620_000)
        } else {
            (rand_site(&mut r, 620_000, 2), rand_date(&mut r))
        };
        let mut p = P::of_method(r.range(0, 8) as usize);
        if p.meth == 0 {
            custom_angles(&mut r, &mut p);
        }
        p.pol = 0;
        p.rnd = if kind == "school" || kind == "fang" || kind == "iang" || kind == "weather" {
            r.range(0, 3) as usize
        } else {
            0
        };
        p.w = if r.chance(1, 3) { rand_weather(&mut r) } else { None };
        let mut q = p.clone();
        let mut key = 0usize;
        let mut d = 0i64;
        match kind {
            "off" => {
                key = r.range(1, 7) as usize;
                d = r.range(-90, 90) * 60;
                if r.chance(1, 3) {
                    p.imi = r.range(1, 60) * 60;     // an offset and an Imsaak interval together
                    q = p.clone();
                }
                if r.chance(1, 2) {
                    for k in 0..7 {
                        p.off[k] = r.range(-90, 90) * 60;
                    }
                    q = p.clone();
                }
                q.off[key - 1] += d;
            }
            "iint" => {
                d = r.range(1, 120) * 60;
                q.ii = d;
            }
            "fint" => {
                d = r.range(1, 120) * 60;
                q.fi = d;
            }
            "imint" => {
                d = r.range(1, 120) * 60;
                if r.chance(1, 2) {
                    for k in 0..7 {
                        p.off[k] = r.range(-90, 90) * 60;
                    }
                    q = p.clone();
                }
                q.imi = d;
            }
            "school" => {
                q.sch = 3 - p.sch;
            }
            "fang" => {
                d = if r.chance(1, 2) { 10000 } else { -10000 };
                q.fa = (p.fa + d).max(0);
            }
            "iang" => {
                d = if r.chance(1, 2) { 10000 } else { -10000 };
                q.ia = (p.ia + d).max(0);
            }
            "weather" => {
                q.w = Some((r.range(1000, 10500), r.range(-900, 570)));
                if r.chance(1, 2) {
                    p.w = Some((r.range(1000, 10500), r.range(-900, 570)));
                }
            }
            "defw" => {
                p.w = None;
                q.w = Some((10100, 140));
            }
            "ipol" => {
                // an interval-defined Fajr / Isha under a policy: the definition still holds on the reported times
                q = P::of_method(*r_pick(&mut r, &[7usize, 8, 7, 8, 1, 6]));
                if q.ii == 0 || r.chance(1, 4) {
                    q.fi = r.range(30, 120) * 60;
                }
                if r.chance(1, 4) {
                    q.ii = r.range(30, 120) * 60;
                }
                q.pol = *r_pick(&mut r, &[1usize, 2, 3, 4, 5, 6, 7, 8, 9, 10, 13, 2, 5]);
                q.nl = *r_pick(&mut r, &[485_000i64, -485_000, 300_000, 550_000]);
                q.rnd = 0;
                p = q.clone();
                p.pol = 0;
            }
            _ => {
                // xfajr: a call under a policy, to look at Imsaak when Fajr is extreme
                q.pol = r.range(1, 14) as usize;
                if [11usize, 12, 14].contains(&q.pol) && (q.fi != 0 || q.ii != 0) {
                    q.pol = 6;
                }
                q.nl = 485_000;
                if r.chance(1, 3) {
                    q.imi = r.range(1, 60) * 60;
                }
                p = q.clone();
                p.pol = 0;
            }
        }
        let a = call(&site, date, &p);
        let b = call(&site, date, &q);
        if !(a.ok() && b.ok()) {
            continue;
        }
        w.emit(merge(&[
            base_event("c12", &site, date, &q),
            json!({"kind": kind, "key": key, "d": d, "a": res_json(&a), "b": res_json(&b), "p0": p.json()}),
        ]));
    }
    let session = session_flush(&mut w);
    let k = w.finish();
    println!("{}", json!({"session": session, "events": k}));
}


// ------------------------------------------------------------------------------------------
// Boundary probes: the latitude at which an event stops existing (for a longitude, date and parameter
// set) is located by bisection on the library's own validity output; inputs are then laid densely
// around it - at 1e-6 degree steps (where acos-domain guards, tolerances and NaNs live) and at
// 0.02 degree steps (where a displaced boundary shows against the oracle).

fn valid_at(site: &Site, date: NaiveDate, p: &P, which: usize) -> bool {
    raw_call(site, date, p).t[which] >= 0
}

/// returns sites around a validity boundary of entry `which` (0..7), or nothing if there is none
pub fn boundary_probes(r: &mut Rng, date: NaiveDate, p: &P, which: usize, fine: i64, coarse: i64) -> Vec<Site> {
    let lon = r.range(-1_800_000, 1_800_000);
    let south = r.chance(1, 2);
    let mk = |lat9: i64| -> Site {
        // lat9 in 1e-9 degree
        let lat = (lat9 as f64 / 1e5).round() as i64;
        let s = if south { -1 } else { 1 };
        Site { dlat: s * (lat9 - lat * 100_000), lat: s * lat, lon, el: 0, gmt: natural_gmt(lon) }
    };
    let mut p0 = p.clone();
    p0.pol = 0;
    let (mut lo, mut hi) = (30_000_000_000i64, 89_000_000_000i64);
    let vlo = valid_at(&mk(lo), date, &p0, which);
    let vhi = valid_at(&mk(hi), date, &p0, which);
    if vlo == vhi {
        return Vec::new();
    }
    while hi - lo > 2 {
        let mid = (lo + hi) / 2;
        if valid_at(&mk(mid), date, &p0, which) == vlo {
            lo = mid;
        } else {
            hi = mid;
        }
    }
    let mut v = Vec::new();
    for j in -fine..=fine {
        v.push(mk(lo + j * 1000)); // 1e-6 degree steps
    }
    for j in -(fine / 2)..=(fine / 2) {
        v.push(mk(lo + j * 10_000)); // 1e-5 degree steps
    }
    for j in -coarse..=coarse {
        if j != 0 {
            v.push(mk(lo + j * 20_000_000)); // 0.02 degree steps
        }
    }
    v
}

/// dates for boundary probes: random, plus January/February of the non-leap century years
pub fn probe_date(r: &mut Rng) -> NaiveDate {
    if r.chance(1, 4) {
        let y = *r_pick(r, &[1700, 1800, 1900, 2100, 2200, 2300, 2000, 1600]);
        ymd(y, r.range(1, 2) as u32, r.range(1, 28) as u32)
    } else {
        rand_date(r)
    }
}


// ------------------------------------------------------------------------------------------
// Conformance of the whole pipeline model (bin/conform): raw hours at the site, at the substitute latitude and
// on the neighbouring dates, plus the call under an arbitrary policy / interval / offset choice.

pub fn gen_pipe(args: &Args) {
    let seed = args.num("seed", 1) as u64;
    session_start(seed);
    let n = args.num("n", 6000);
    let mut r = Rng::new(seed ^ 0x919E);
    let mut w = TraceWriter::create(&args.str("out", "pipe.ndjson"));
    let mut with_search = 0;
    for i in 0..n {
        // two thirds below 64 degrees (two thirds of those on twilight-edge days); one third anywhere up to the poles,
        // half of those in the bands around the polar circles where sunrise / the interval methods' angle-0 Isha stop existing
        let (mut site, date) = if i % 3 == 2 {
            let mut s = rand_site(&mut r, 900_000, 0);
            if r.chance(1, 2) {
                s.lat = (650_000 + r.range(0, 60_000)) * if r.chance(1, 2) { 1 } else { -1 };
            }
            (s, rand_date(&mut r))
        } else if i % 3 == 1 || i % 9 != 0 {
            twilight_edge_case(&mut r, 640_000)
        } else {
            (rand_site(&mut r, 640_000, 0), rand_date(&mut r))
        };
        site.gmt = natural_gmt(site.lon);
        let mut p = P::of_method(r.range(1, 8) as usize);
        if r.chance(1, 4) && p.ii == 0 {
            custom_angles(&mut r, &mut p);
        }
        if r.chance(1, 6) {
            p.fi = r.range(20, 120) * 60;
        }
        if r.chance(1, 8) {
            p.ii = r.range(20, 120) * 60;
        }
        if r.chance(1, 4) {
            p.imi = r.range(1, 40) * 60;
        }
        p.pol = r.range(0, 14) as usize;
        p.nl = *r_pick(&mut r, &[485_000i64, -485_000, 300_000, 550_000, 600_000]);
        if site.lat < 0 && r.chance(1, 2) {
            p.nl = -p.nl.abs();
        }
        if r.chance(1, 5) {
            p.nl = r.range(-900_000, 900_000);
        }
        p.rnd = 0;
        if r.chance(1, 3) {
            for k in 0..7 {
                p.off[k] = r.range(-1800, 1800);
            }
        }
        let mut raw = p.raw();
        raw.fi = 0;
        raw.ii = 0;
        raw.imi = 0;
        raw.off = [0; 7];
        let here = raw_call(&site, date, &raw);
        let mut nl_site = site;
        nl_site.lat = p.nl;
        let nl = raw_call(&nl_site, date, &raw);
        if !(here.ok() && nl.ok()) {
            continue;
        }
        // the model works on clock times unwrapped around Dhuhr: keep to days where sunrise and sunset sit inside the civil day
        let (sh, dh, mg) = (here.t[2], here.t[3], here.t[5]);
        if sh >= 0 && mg >= 0 && !(sh < dh && dh < mg) {
            continue;
        }
        let mut nb: Vec<Value> = vec![json!({"o": 0, "t": here.t})];
        if p.pol == 5 || p.pol == 6 {
            let good_b = |o: &Out| o.t[1] >= 0 && o.t[6] >= 0;
            let good_i = |o: &Out| o.t[0] >= 0 && o.t[6] >= 0;
            let (mut fb, mut fi) = (good_b(&here), good_i(&here));
            let mut m = 0i64;
            while !(fb && fi) && m < 366 {
                m += 1;
                let cm = raw_call(&site, date - chrono::Duration::days(m), &raw);
                let cp = raw_call(&site, date + chrono::Duration::days(m), &raw);
                if !(cm.ok() && cp.ok()) {
                    break;
                }
                fb = fb || good_b(&cm) || good_b(&cp);
                fi = fi || good_i(&cm) || good_i(&cp);
                nb.push(json!({"o": -m, "t": cm.t}));
                nb.push(json!({"o": m, "t": cp.t}));
            }
            if m > 0 {
                with_search += 1;
            }
            if m >= 366 {
                continue;
            }
        }
        let b = call(&site, date, &p);
        if !b.ok() {
            continue;
        }
        w.emit(merge(&[base_event("pipe", &site, date, &p), json!({"here": here.t, "nl": nl.t, "nb": nb, "b": res_json(&b)})]));
    }
    let session = session_flush(&mut w);
    let k = w.finish();
    println!("{}", json!({"session": session, "events": k, "with_search": with_search}));
}
