//! C14: num_days / partition / range API events.

use std::time::Duration;

use chrono::NaiveDate;
use islamic_prayer_times::*;
use serde_json::json;

use crate::common::*;
use crate::guard::*;

fn anchors() -> Vec<NaiveDate> {
    vec![
        ymd(2023, 1, 1),
        ymd(2024, 2, 28),
        ymd(2023, 2, 28),
        ymd(2023, 12, 31),
        ymd(1600, 1, 1),
        ymd(2399, 11, 1),
        ymd(1582, 10, 1),
        ymd(2000, 2, 29),
        ymd(1900, 2, 28),
        ymd(2100, 12, 30),
        ymd(2024, 1, 31),
        ymd(1999, 4, 30),
        // where the library's Julian-day formula changes shape: the 1582 reform, Julian-only leap days, year 0 / 1
        ymd(1582, 10, 1),
        ymd(1500, 2, 20),
        ymd(1400, 2, 25),
        ymd(0, 12, 20),
        ymd(1582, 9, 20),
    ]
}

fn rand_site(r: &mut Rng) -> Site {
    let lon = r.range(-1_800_000, 1_800_000);
    Site {
        dlat: 0,
        lat: r.range(-600_000, 600_000),
        lon,
        el: r.range(0, 3000),
        gmt: natural_gmt(lon),
    }
}

fn num_days_proj(dr: &DateRange) -> i64 {
    let n = dr.num_days();
    if n > 2_000_000_000 {
        2_000_000_000
    } else {
        n as i64
    }
}

fn part_event(s: NaiveDate, e: NaiveDate, k: usize) -> serde_json::Value {
    let dr = DateRange::from(s..=e);
    let g = guarded(Duration::from_secs(10), move || dr.partition(k));
    let (out, bl) = match g {
        Guarded::Ret(v) => (
            "ret",
            v.iter()
                .map(|b| vec![dn_of(*b.start_date()), dn_of(*b.end_date())])
                .collect::<Vec<_>>(),
        ),
        Guarded::Panic(_) => ("panic", vec![]),
        Guarded::Hang => ("hang", vec![]),
    };
    json!({"ev": "part", "s": dn_of(s), "e": dn_of(e), "k": k, "bl": bl, "out": out})
}

pub fn gen(args: &Args) {
    let seed = args.num("seed", 1) as u64;
    let thorough = args.str("tier", "quick") == "thorough";
    let mut r = Rng::new(seed ^ 0xC14);
    let mut w = TraceWriter::create(&args.str("out", "c14.ndjson"));
    let mut hangs = 0;

    // (1) spec -> impl: the whole (length, k) table of the model at anchor start dates
    let anchors = anchors();
    let n_anchor = if thorough { anchors.len() } else { 3 };
    for a in 0..n_anchor {
        let s = if a < 2 { anchors[a] } else { anchors[(2 + (seed as usize + a) % (anchors.len() - 2)).min(anchors.len() - 1)] };
        let s = if thorough { anchors[a] } else { s };
        for len in -5i64..=70 {
            let e = s + chrono::Duration::days(len - 1);
            let dr = DateRange::from(s..=e);
            w.emit(json!({"ev": "nd", "s": dn_of(s), "e": dn_of(e), "n": num_days_proj(&dr)}));
            for k in 0..=64usize {
                w.emit(part_event(s, e, k));
            }
        }
    }

    // (2) impl -> spec: seeded random start/end/k incl. reversed and long spans
    let n_rand = if thorough { 20000 } else { 3000 };
    for _ in 0..n_rand {
        let base = if r.chance(1, 3) {
            r.pick(&anchors)
        } else {
            date_of_dn(r.range(dn_of(ymd(1600, 1, 1)), dn_of(ymd(2394, 1, 1))))
        };
        let span = match r.range(0, 9) {
            0 => -r.range(0, 400),
            1 => r.range(0, 2),
            2 | 3 => r.range(1, 70),
            _ => r.range(1, 2000),
        };
        let e = base + chrono::Duration::days(span - 1);
        let dr = DateRange::from(base..=e);
        w.emit(json!({"ev": "nd", "s": dn_of(base), "e": dn_of(e), "n": num_days_proj(&dr)}));
        let k = match r.range(0, 5) {
            0 => r.range(0, 2) as usize,
            1 => (span.max(0) + r.range(-2, 2)).clamp(0, 64) as usize,
            _ => r.range(0, 64) as usize,
        };
        w.emit(part_event(base, e, k));
    }

    // (3) the range API against the single-date API
    let n_rng = if thorough { 1500 } else { 160 };
    for i in 0..n_rng {
        let base = if r.chance(1, 3) {
            r.pick(&anchors)
        } else {
            date_of_dn(r.range(dn_of(ymd(1600, 1, 1)), dn_of(ymd(2394, 1, 1))))
        };
        let span = match i % 8 {
            0 => -r.range(0, 50),
            1 => r.range(0, 1),
            2 => r.range(1, 3),
            3 | 4 => r.range(300, 2000),
            _ => r.range(1, 400),
        };
        let e = base + chrono::Duration::days(span - 1);
        let site = rand_site(&mut r);
        let mut p = P::of_method(r.range(1, 8) as usize);
        if r.chance(1, 2) {
            p.pol = r.range(0, 14) as usize;
        }
        if span < 1 && hangs >= 2 {
            // two runaway iterations are already recorded; do not start more spinning threads
            continue;
        }
        let params = p.params();
        let loc = site.location();
        let dr = DateRange::from(base..=e);
        let g = guarded(Duration::from_secs(12), move || {
            let m = prayer_times_dt_rng(&params, loc, &dr);
            let n = m.len() as i64;
            let first = m.keys().next().map(|d| dn_of(*d)).unwrap_or(0);
            let last = m.keys().next_back().map(|d| dn_of(*d)).unwrap_or(0);
            let mut contig = true;
            let mut prev: Option<i64> = None;
            let mut eq = true;
            for (d, v) in m.iter() {
                let dn = dn_of(*d);
                if let Some(pv) = prev {
                    if dn != pv + 1 {
                        contig = false;
                    }
                }
                prev = Some(dn);
                if *v != prayer_times_dt(&params, loc, *d, None) {
                    eq = false;
                }
            }
            (n, first, last, contig, eq)
        });
        let ev = match g {
            Guarded::Ret((n, first, last, contig, eq)) => json!({"ev": "rng", "out": "ret",
                "s": dn_of(base), "e": dn_of(e), "n": n, "first": first, "last": last,
                "contig": contig, "eq": eq}),
            Guarded::Panic(_) => json!({"ev": "rng", "out": "panic", "s": dn_of(base), "e": dn_of(e),
                "n": 0, "first": 0, "last": 0, "contig": false, "eq": false}),
            Guarded::Hang => {
                hangs += 1;
                json!({"ev": "rng", "out": "hang", "s": dn_of(base), "e": dn_of(e),
                "n": 0, "first": 0, "last": 0, "contig": false, "eq": false})
            }
        };
        w.emit(merge(&[ev, json!({"site": site_json(&site), "p": p.json()})]));
    }
    // (4) ranges across the season without twilight (search-heavy policies), two different places back to back:
    // every day of the range must still equal the single-date result
    let n_season = if thorough { 400 } else { 40 };
    for i in 0..n_season {
        let north = r.chance(1, 2);
        let lat = r.range(490_000, 640_000) * if north { 1 } else { -1 };
        let lon = r.range(-1_800_000, 1_800_000);
        let site = Site { dlat: 0, lat, lon, el: 0, gmt: natural_gmt(lon) };
        let y = r.range(1600, 2398) as i32;
        let mid = if north { ymd(y, 6, 21) } else { ymd(y, 12, 21) };
        let base = mid + chrono::Duration::days(r.range(-75, 20));
        let span = r.range(10, 70);
        let e = base + chrono::Duration::days(span - 1);
        let mut p = P::of_method(*[1usize, 2, 3, 5, 6][..].get((r.next() % 5) as usize).unwrap());
        p.pol = if i % 3 == 0 { 6 } else { 5 };
        let params = p.params();
        let loc = site.location();
        let dr = DateRange::from(base..=e);
        // the range call before it, on the same thread: another place (or other angles), the dates just before
        let lon0 = r.range(-1_800_000, 1_800_000);
        let site0 = Site { dlat: 0, lat: r.range(490_000, 640_000) * if north { 1 } else { -1 }, lon: lon0, el: 0, gmt: natural_gmt(lon0) };
        let mut p0 = P::of_method(*[1usize, 2, 3, 5, 6][..].get((r.next() % 5) as usize).unwrap());
        p0.pol = p.pol;
        let (params0, loc0) = (p0.params(), site0.location());
        let dr0 = DateRange::from((base - chrono::Duration::days(r.range(5, 20)))..=(base - chrono::Duration::days(1)));
        let g = guarded(Duration::from_secs(60), move || {
            let _ = prayer_times_dt_rng(&params0, loc0, &dr0);
            let m = prayer_times_dt_rng(&params, loc, &dr);
            let n = m.len() as i64;
            let first = m.keys().next().map(|d| dn_of(*d)).unwrap_or(0);
            let last = m.keys().next_back().map(|d| dn_of(*d)).unwrap_or(0);
            let contig = n == 0 || last - first + 1 == n;
            // single-date results computed on a fresh thread each (no state shared with the range call)
            let mut eq = true;
            for (d, v) in m.iter() {
                let (pp, dd) = (params.clone(), *d);
                let single = std::thread::spawn(move || prayer_times_dt(&pp, loc, dd, None)).join();
                if single.map_or(true, |sv| sv != *v) {
                    eq = false;
                }
            }
            (n, first, last, contig, eq)
        });
        let ev = match g {
            Guarded::Ret((n, first, last, contig, eq)) => json!({"ev": "rng", "out": "ret",
                "s": dn_of(base), "e": dn_of(e), "n": n, "first": first, "last": last, "contig": contig, "eq": eq}),
            Guarded::Panic(_) => json!({"ev": "rng", "out": "panic", "s": dn_of(base), "e": dn_of(e),
                "n": 0, "first": 0, "last": 0, "contig": false, "eq": false}),
            Guarded::Hang => {
                hangs += 1;
                json!({"ev": "rng", "out": "hang", "s": dn_of(base), "e": dn_of(e),
                "n": 0, "first": 0, "last": 0, "contig": false, "eq": false})
            }
        };
        w.emit(merge(&[ev, json!({"site": site_json(&site), "p": p.json(), "stratum": "season"})]));
    }
    let n = w.finish();
    println!("{}", json!({"events": n, "hangs": hangs}));
    if hangs > 0 {
        std::process::exit(0);
    }
}
