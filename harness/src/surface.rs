//! Conformance events for Surface.tla (not tied to a listed property; run by bin/conform).

use chrono::NaiveTime;
use islamic_prayer_times::*;
use serde_json::json;

use crate::common::*;

pub fn gen(args: &Args) {
    let seed = args.num("seed", 1) as u64;
    let mut r = Rng::new(seed ^ 0x5AFE);
    let mut w = TraceWriter::create(&args.str("out", "surface.ndjson"));
    for m in 0..9usize {
        w.emit(json!({"ev": "meth", "meth": m, "p": P::of_method(m).json()}));
    }
    // PrayerTime text: every minute boundary region + random seconds
    let mut ts: Vec<i64> = (0..24).flat_map(|h| [h * 3600, h * 3600 + 59, h * 3600 + 60, h * 3600 + 3599]).collect();
    for _ in 0..3000 {
        ts.push(r.range(0, 86399));
    }
    for t in ts {
        for x in [false, true] {
            let pt = PrayerTime { time: NaiveTime::from_num_seconds_from_midnight_opt(t as u32, 0).unwrap(), extreme: x };
            let s = format!("{}", pt);
            // "%l:%M %p" then optional " (extreme)"
            let ext = s.ends_with(" (extreme)");
            let core = s.trim_end_matches(" (extreme)").trim();
            let mut it = core.split(|c| c == ':' || c == ' ');
            let h12 = it.next().and_then(|v| v.parse::<i64>().ok());
            let mm = it.next().and_then(|v| v.parse::<i64>().ok());
            let ap = it.next().unwrap_or("");
            let parsed = h12.is_some() && mm.is_some() && (ap == "AM" || ap == "PM") && it.next().is_none();
            w.emit(json!({"ev": "clock", "t": t, "x": x as i64, "text": s, "parsed": parsed,
                "h12": h12.unwrap_or(-1), "mm": mm.unwrap_or(-1), "pm": ap == "PM", "ext": ext}));
        }
    }
    // coordinate texts and directions
    for i in 0..3000 {
        let (kind, lo, hi) = [("lat", -900_000i64, 900_000i64), ("lon", -1_800_000, 1_800_000), ("el", -4_200_000, 88_480_000)][i % 3];
        let v = match i % 9 {
            0 | 1 | 2 => *[lo, hi, 0, 5000, -5000, 4999, -4999, 15000, -15000][..].get((r.next() % 9) as usize).unwrap(),
            _ => r.range(lo, hi),
        };
        let f = v as f64 / 1e4;
        let (text, isnorth) = match kind {
            "lat" => {
                let x = Latitude::try_from(f).unwrap();
                (format!("{}", x), x.direction() == Direction::North)
            }
            "lon" => {
                let x = Longitude::try_from(f).unwrap();
                (format!("{}", x), x.direction() == Direction::East)
            }
            _ => (format!("{}", Elevation::try_from(f).unwrap()), true),
        };
        let mut it = text.split(' ');
        let n = it.next().and_then(|s| s.parse::<f64>().ok());
        let dir = it.next().unwrap_or("").to_string();
        // an elevation prints its sign; Surface.tla speaks about the magnitude
        let n_abs = n.map(|x| x.abs().round() as i64);
        w.emit(json!({"ev": "coord", "kind": kind, "v": v, "text": text, "parsed": n.is_some() && it.next().is_none(),
            "n": n_abs.unwrap_or(-1), "dir": dir, "isnorth": isnorth}));
    }
    // names
    let months: Vec<String> = (1..=12u8).map(|m| format!("{}", HijriMonth::try_from(m).unwrap())).collect();
    let days: Vec<String> = (1..=7u8).map(|d| format!("{}", HijriDay::try_from(d).unwrap())).collect();
    let prayers: Vec<String> = PRAYERS.iter().map(|p| format!("{}", p)).collect();
    w.emit(json!({"ev": "names", "months": months, "days": days, "prayers": prayers}));
    // JSON round trips
    for _ in 0..400 {
        let mut p = P::of_method(r.range(0, 8) as usize);
        p.pol = r.range(0, 14) as usize;
        p.nl = r.range(-900_000, 900_000);
        p.off[r.range(0, 6) as usize] = r.range(-90, 90) * 60;
        let params = p.params();
        let s = serde_json::to_string(&params).unwrap();
        let back: Result<Params, _> = serde_json::from_str(&s);
        let same = back.map(|b| serde_json::to_value(&b).unwrap() == serde_json::to_value(&params).unwrap()).unwrap_or(false);
        w.emit(json!({"ev": "json", "what": "Params", "same": same}));
        let site = crate::pd::rand_site(&mut r, 900_000, 12);
        let loc = site.location();
        let same = serde_json::from_str::<Location>(&serde_json::to_string(&loc).unwrap()).map(|b| b == loc).unwrap_or(false);
        w.emit(json!({"ev": "json", "what": "Location", "same": same}));
        let d = crate::pd::rand_date(&mut r);
        let dr = DateRange::from(d..=(d + chrono::Duration::days(r.range(-3, 40))));
        let same = serde_json::from_str::<DateRange>(&serde_json::to_string(&dr).unwrap()).map(|b| b == dr).unwrap_or(false);
        w.emit(json!({"ev": "json", "what": "DateRange", "same": same}));
        let res = prayer_times_dt(&params, loc, d, None);
        let txt = serde_json::to_string(&res).unwrap();
        let same = serde_json::from_str::<std::collections::BTreeMap<Prayer, Result<PrayerTime, ()>>>(&txt).map(|b| b == res).unwrap_or(false);
        w.emit(json!({"ev": "json", "what": "result", "same": same}));
    }
    // the tool's date defaults (src/main.rs read_params_cli): neither date -> today..today; only a start date ->
    // that date alone; only an end date -> today..end.  Needs the built binary (--bin); TZ pinned so "today" is known.
    let bin = args.str("bin", "");
    if !bin.is_empty() {
        let dir = args.str("dir", "/tmp");
        type Table = std::collections::BTreeMap<chrono::NaiveDate, serde_json::Value>;
        for i in 0..24 {
            let wd = format!("{}/clidates{}", dir, i);
            let _ = std::fs::remove_dir_all(&wd);
            std::fs::create_dir_all(&wd).unwrap();
            let out = format!("{}/o.json", wd);
            let today = || chrono::Utc::now().date_naive();
            let before = today();
            let mode = ["s", "n", "none"][i % 3];
            // dates around today (so that an end-date default of "today" and one of "the start date" differ) and far from it
            let d = if i % 2 == 0 { before + chrono::Duration::days(r.range(-40, 40)) } else { crate::pd::rand_date(&mut r) };
            let mut argv = vec!["--latitude=10".to_string(), "--longitude=20".to_string(), "--gmt=1".to_string(), format!("--output-file-path={}", out)];
            match mode {
                "s" => argv.push(format!("--start-date={}", d)),
                "n" => argv.push(format!("--end-date={}", d)),
                _ => {}
            }
            let res = std::process::Command::new(&bin).args(&argv).env("TZ", "UTC").current_dir(&wd).output_t();
            let after = today();
            let exit = res.map(|o| o.status.code().unwrap_or(-9)).unwrap_or(-8);
            let keys: Vec<i64> = std::fs::read_to_string(&out).ok().and_then(|t| serde_json::from_str::<Table>(&t).ok())
                .map(|t| t.keys().map(|d| dn_of(*d)).collect()).unwrap_or_default();
            let contiguous = keys.windows(2).all(|p| p[1] == p[0] + 1);
            w.emit(json!({"ev": "clidates", "mode": mode, "d": dn_of(d), "exit": exit, "count": keys.len(),
                          "first": keys.first().copied().unwrap_or(0), "last": keys.last().copied().unwrap_or(0), "contiguous": contiguous,
                          "before": dn_of(before), "after": dn_of(after)}));
            let _ = std::fs::remove_dir_all(&wd);
        }
    }
    let k = w.finish();
    println!("{}", json!({"events": k}));
}
