//! Shared pieces of the conformance harness: PRNG, integer-grid inputs, construction of the
//! library's types, one guarded public call, projection of results to integers.
//!
//! The harness never judges a property. It drives the public API, projects arguments and
//! results to the integer units used by the TLA+ specification (DESIGN §4.1) and writes one JSON
//! object per line; TLC decides.

use std::collections::BTreeMap;
use std::io::Write;
use std::panic::{catch_unwind, AssertUnwindSafe};

use chrono::{Datelike, NaiveDate};
use islamic_prayer_times::*;
use serde_json::{json, Value};

pub const PRAYERS: [Prayer; 7] = [
    Prayer::Imsaak,
    Prayer::Fajr,
    Prayer::Shurooq,
    Prayer::Dhuhr,
    Prayer::Asr,
    Prayer::Maghrib,
    Prayer::Isha,
];

pub const METHODS: [Method; 9] = [
    Method::None,
    Method::Egyptian,
    Method::Egypt,
    Method::Shafi,
    Method::Hanafi,
    Method::Isna,
    Method::Mwl,
    Method::UmmAlQurra,
    Method::FixedIsha,
];

pub const METHOD_NAMES: [&str; 9] = [
    "none",
    "egyptian",
    "egypt",
    "shafi",
    "hanafi",
    "isna",
    "mwl",
    "umm-al-qurra",
    "fixed-isha",
];

/// SplitMix64: tiny, seedable, dependency-free.
#[derive(Clone)]
pub struct Rng(pub u64);

impl Rng {
    pub fn new(seed: u64) -> Self {
        // the state is the seed pushed through the output mixer twice, so that the streams of nearby
        // seeds are unrelated (state = seed * gamma would make them shifted copies of one another)
        let mut r = Rng(seed ^ 0x1234_5678_9abc_def1);
        let a = r.next();
        let mut r2 = Rng(a ^ seed.rotate_left(32));
        let b = r2.next();
        Rng(a ^ b.rotate_left(17))
    }
    pub fn next(&mut self) -> u64 {
        self.0 = self.0.wrapping_add(0x9E3779B97F4A7C15);
        let mut z = self.0;
        z = (z ^ (z >> 30)).wrapping_mul(0xBF58476D1CE4E5B9);
        z = (z ^ (z >> 27)).wrapping_mul(0x94D049BB133111EB);
        z ^ (z >> 31)
    }
    /// uniform in [lo, hi] inclusive
    pub fn range(&mut self, lo: i64, hi: i64) -> i64 {
        debug_assert!(hi >= lo);
        let span = (hi - lo) as u64 + 1;
        lo + (self.next() % span) as i64
    }
    pub fn pick<T: Copy>(&mut self, xs: &[T]) -> T {
        xs[(self.next() % xs.len() as u64) as usize]
    }
    pub fn chance(&mut self, num: u64, den: u64) -> bool {
        self.next() % den < num
    }
}

/// Days since 2000-01-01 (the spec's `dn`).
pub fn dn_of(date: NaiveDate) -> i64 {
    (date - NaiveDate::from_ymd_opt(2000, 1, 1).unwrap()).num_days()
}

pub fn date_of_dn(dn: i64) -> NaiveDate {
    NaiveDate::from_ymd_opt(2000, 1, 1).unwrap() + chrono::Duration::days(dn)
}

pub fn ymd(y: i32, m: u32, d: u32) -> NaiveDate {
    NaiveDate::from_ymd_opt(y, m, d).unwrap()
}

/// A site on the integer grid: lat/lon in 1e-4 degree, elevation in metres, gmt in seconds.
#[derive(Clone, Copy, Debug, PartialEq)]
pub struct Site {
    /// extra latitude precision in 1e-9 degree (boundary probes); the spec sees `lat` only
    pub dlat: i64,
    pub lat: i64,
    pub lon: i64,
    pub el: i64,
    pub gmt: i64,
}

impl Site {
    pub fn location(&self) -> Location {
        Location {
            coords: Coordinates::new(
                Latitude::try_from((self.lat as f64 / 1e4 + self.dlat as f64 / 1e9).clamp(-90., 90.)).unwrap(),
                Longitude::try_from(self.lon as f64 / 1e4).unwrap(),
                Elevation::try_from(self.el as f64).unwrap(),
            ),
            gmt: Gmt::try_from(self.gmt as f64 / 3600.).unwrap(),
        }
    }
}

/// Extreme-latitude policy index (the spec's `pol`), 0 = None .. 14.
pub const POLICY_NAMES: [&str; 15] = [
    "None",
    "AngleBased",
    "NearestLatitudeAllPrayersAlways",
    "NearestLatitudeFajrIshaAlways",
    "NearestLatitudeFajrIshaInvalid",
    "NearestGoodDayAllPrayersAlways",
    "NearestGoodDayFajrIshaInvalid",
    "SeventhOfNightFajrIshaAlways",
    "SeventhOfNightFajrIshaInvalid",
    "SeventhOfDayFajrIshaAlways",
    "SeventhOfDayFajrIshaInvalid",
    "HalfOfNightFajrIshaAlways",
    "HalfOfNightFajrIshaInvalid",
    "MinutesFromMaghribFajrIshaAlways",
    "MinutesFromMaghribFajrIshaInvalid",
];

pub fn policy(idx: usize, nl: i64) -> ExtremeLatitudeMethod {
    use ExtremeLatitudeMethod::*;
    let l = || Latitude::try_from(nl as f64 / 1e4).unwrap();
    match idx {
        0 => None,
        1 => AngleBased,
        2 => NearestLatitudeAllPrayersAlways(l()),
        3 => NearestLatitudeFajrIshaAlways(l()),
        4 => NearestLatitudeFajrIshaInvalid(l()),
        5 => NearestGoodDayAllPrayersAlways,
        6 => NearestGoodDayFajrIshaInvalid,
        7 => SeventhOfNightFajrIshaAlways,
        8 => SeventhOfNightFajrIshaInvalid,
        9 => SeventhOfDayFajrIshaAlways,
        10 => SeventhOfDayFajrIshaInvalid,
        11 => HalfOfNightFajrIshaAlways,
        12 => HalfOfNightFajrIshaInvalid,
        13 => MinutesFromMaghribFajrIshaAlways,
        14 => MinutesFromMaghribFajrIshaInvalid,
        _ => unreachable!(),
    }
}

/// Parameter set on the integer grid.
/// angles in 1e-4 degree; intervals and offsets in seconds (the library takes minutes: s/60).
#[derive(Clone, Debug, PartialEq)]
pub struct P {
    pub meth: usize,
    pub pol: usize,
    pub nl: i64,
    pub fa: i64,
    pub ia: i64,
    pub ima: i64,
    pub fi: i64,
    pub ii: i64,
    pub imi: i64,
    pub off: [i64; 7],
    pub rnd: usize,
    pub sch: usize,
    /// (pressure mbar*10, temperature C*10)
    pub w: Option<(i64, i64)>,
}

impl P {
    /// The parameter set `Params::new(method)` produces, read back from the library itself
    /// (so a change of the method table is visible in the events, not masked by the harness).
    pub fn of_method(meth: usize) -> P {
        let p = Params::new(METHODS[meth]);
        let g = |m: &std::collections::HashMap<Prayer, f64>, k: Prayer, s: f64| -> i64 {
            (m.get(&k).copied().unwrap_or(0.) * s).round() as i64
        };
        let mut off = [0i64; 7];
        for (i, pr) in PRAYERS.iter().enumerate() {
            off[i] = g(&p.minutes, *pr, 60.);
        }
        P {
            meth,
            pol: policy_index(p.extreme_latitude_method),
            nl: policy_lat(p.extreme_latitude_method),
            fa: g(&p.angles, Prayer::Fajr, 1e4),
            ia: g(&p.angles, Prayer::Isha, 1e4),
            ima: g(&p.angles, Prayer::Imsaak, 1e4),
            fi: g(&p.intervals, Prayer::Fajr, 60.),
            ii: g(&p.intervals, Prayer::Isha, 60.),
            imi: g(&p.intervals, Prayer::Imsaak, 60.),
            off,
            rnd: match p.round_seconds {
                RoundSeconds::None => 0,
                RoundSeconds::NormalRounding => 1,
                RoundSeconds::SpecialRounding => 2,
                RoundSeconds::AggressiveRounding => 3,
            },
            sch: p.asr_shadow_ratio as usize,
            w: None,
        }
    }

    /// "raw conventional hours" view of a parameter set: no policy, no rounding.
    pub fn raw(&self) -> P {
        let mut q = self.clone();
        q.pol = 0;
        q.rnd = 0;
        q
    }

    pub fn params(&self) -> Params {
        let mut p = Params::new(METHODS[self.meth]);
        p.extreme_latitude_method = policy(self.pol, self.nl);
        p.round_seconds = match self.rnd {
            0 => RoundSeconds::None,
            1 => RoundSeconds::NormalRounding,
            2 => RoundSeconds::SpecialRounding,
            _ => RoundSeconds::AggressiveRounding,
        };
        p.asr_shadow_ratio = if self.sch == 2 {
            AsrShadowRatio::Hanafi
        } else {
            AsrShadowRatio::Shafi
        };
        p.angles.insert(Prayer::Fajr, self.fa as f64 / 1e4);
        p.angles.insert(Prayer::Isha, self.ia as f64 / 1e4);
        p.angles.insert(Prayer::Imsaak, self.ima as f64 / 1e4);
        p.intervals.insert(Prayer::Fajr, self.fi as f64 / 60.);
        p.intervals.insert(Prayer::Isha, self.ii as f64 / 60.);
        p.intervals.insert(Prayer::Imsaak, self.imi as f64 / 60.);
        for (i, pr) in PRAYERS.iter().enumerate() {
            p.minutes.insert(*pr, self.off[i] as f64 / 60.);
        }
        p
    }

    pub fn weather(&self) -> Option<Weather> {
        self.w.map(|(p, t)| Weather {
            pressure: Pressure::try_from(p as f64 / 10.).unwrap(),
            temperature: Temperature::try_from(t as f64 / 10.).unwrap(),
        })
    }

    pub fn json(&self) -> Value {
        json!({
            "meth": self.meth, "pol": self.pol, "nl": self.nl,
            "fa": self.fa, "ia": self.ia, "ima": self.ima,
            "fi": self.fi, "ii": self.ii, "imi": self.imi,
            "off": self.off, "rnd": self.rnd, "sch": self.sch,
            "w": match self.w { Some((p,t)) => json!([p,t]), None => json!([]) },
        })
    }
}

pub fn policy_index(m: ExtremeLatitudeMethod) -> usize {
    use ExtremeLatitudeMethod::*;
    match m {
        None => 0,
        AngleBased => 1,
        NearestLatitudeAllPrayersAlways(_) => 2,
        NearestLatitudeFajrIshaAlways(_) => 3,
        NearestLatitudeFajrIshaInvalid(_) => 4,
        NearestGoodDayAllPrayersAlways => 5,
        NearestGoodDayFajrIshaInvalid => 6,
        SeventhOfNightFajrIshaAlways => 7,
        SeventhOfNightFajrIshaInvalid => 8,
        SeventhOfDayFajrIshaAlways => 9,
        SeventhOfDayFajrIshaInvalid => 10,
        HalfOfNightFajrIshaAlways => 11,
        HalfOfNightFajrIshaInvalid => 12,
        MinutesFromMaghribFajrIshaAlways => 13,
        MinutesFromMaghribFajrIshaInvalid => 14,
    }
}

pub fn policy_lat(m: ExtremeLatitudeMethod) -> i64 {
    use ExtremeLatitudeMethod::*;
    match m {
        NearestLatitudeAllPrayersAlways(l)
        | NearestLatitudeFajrIshaAlways(l)
        | NearestLatitudeFajrIshaInvalid(l) => (f64::from(l) * 1e4).round() as i64,
        _ => 485000,
    }
}

/// Result of one public call, projected.
#[derive(Clone, Debug, PartialEq)]
pub struct Out {
    /// "ret7" | "keys" (wrong key set) | "panic"
    pub out: &'static str,
    /// seconds of the civil day, -1 = Invalid
    pub t: [i64; 7],
    pub x: [i64; 7],
    pub msg: String,
}

impl Out {
    pub fn json(&self) -> Value {
        json!({"out": self.out, "t": self.t, "x": self.x})
    }
    pub fn ok(&self) -> bool {
        self.out == "ret7"
    }
}

pub fn project(m: &BTreeMap<Prayer, Result<PrayerTime, ()>>) -> Out {
    use chrono::Timelike;
    let mut t = [-1i64; 7];
    let mut x = [0i64; 7];
    let mut keys_ok = m.len() == 7;
    for (i, pr) in PRAYERS.iter().enumerate() {
        match m.get(pr) {
            Some(Ok(pt)) => {
                t[i] = pt.time.num_seconds_from_midnight() as i64;
                x[i] = pt.extreme as i64;
            }
            Some(Err(())) => {}
            None => keys_ok = false,
        }
    }
    Out {
        out: if keys_ok { "ret7" } else { "keys" },
        t,
        x,
        msg: String::new(),
    }
}

// ------------------------------------------------------------------------------------------
// Session effects: results must be a function of the arguments alone. Every generator goes
// through `call`, which (seeded, with small probabilities) first makes a call with a NEIGHBOUR of
// the input (same date in another zone, a site in the same one-degree cell, other weather / school /
// angles, the adjacent date, the same latitude elsewhere ...), then the call itself, then repeats the
// call on a fresh thread (empty thread-local state) and through the range APIs. A difference is
// recorded and emitted as an `impure` event, which no action of any trace specification accepts.

pub struct Session {
    rng: Rng,
    pub impure: Vec<Value>,
    pub enabled: bool,
    pub neighbours: u64,
    pub fresh_checks: u64,
    pub api_checks: u64,
}

pub static SESSION: std::sync::Mutex<Option<Session>> = std::sync::Mutex::new(None);

pub fn session_start(seed: u64) {
    *SESSION.lock().unwrap() = Some(Session { rng: Rng::new(seed ^ 0x5E55), impure: Vec::new(), enabled: true,
        neighbours: 0, fresh_checks: 0, api_checks: 0 });
}

/// Emit the recorded impurities into the trace (call once, before `finish`).
pub fn session_flush(w: &mut TraceWriter) -> Value {
    let mut g = SESSION.lock().unwrap();
    if let Some(s) = g.as_mut() {
        for v in s.impure.drain(..) {
            w.emit(v);
        }
        json!({"neighbour_calls": s.neighbours, "fresh_thread_checks": s.fresh_checks, "range_api_checks": s.api_checks})
    } else {
        json!({})
    }
}

fn neighbour(r: &mut Rng, site: &Site, date: NaiveDate, p: &P) -> (Site, NaiveDate, P) {
    let (s, d, q) = neighbour1(r, site, date, p);
    if r.chance(1, 3) {
        neighbour1(r, &s, d, &q)
    } else {
        (s, d, q)
    }
}

fn neighbour1(r: &mut Rng, site: &Site, date: NaiveDate, p: &P) -> (Site, NaiveDate, P) {
    let mut s = *site;
    let mut d = date;
    let mut q = p.clone();
    match r.range(0, 11) {
        0 => s.gmt = (s.gmt + *[900i64, -900, 1800, -1800, 3600, -3600, 565, -11][..].get((r.next() % 8) as usize).unwrap()).clamp(-43200, 43200),
        1 => s.lon = (s.lon + r.range(-3000, 3000)).clamp(-1_800_000, 1_800_000),
        2 => s.lat = (s.lat + r.range(-3000, 3000)).clamp(-900_000, 900_000),
        3 => s.lat = (s.lat + r.range(-60, 60)).clamp(-900_000, 900_000),
        4 => s.el = (s.el + r.range(-200, 200)).clamp(-420, 8848),
        5 => q.w = if q.w.is_some() { None } else { Some((r.range(1000, 10500), r.range(-900, 570))) },
        6 => q.sch = 3 - q.sch,
        7 => {
            q.fa = (q.fa + r.range(-2, 2) * 10000).max(0);
            q.ia = (q.ia + r.range(-2, 2) * 10000).max(0);
        }
        8 => d = if r.chance(1, 2) { date.succ_opt().unwrap_or(date) } else { date.pred_opt().unwrap_or(date) },
        9 => {
            // the same latitude elsewhere on the globe, in its own zone
            s.lon = r.range(-1_800_000, 1_800_000);
            s.gmt = natural_gmt(s.lon);
        }
        10 => q.pol = r.range(0, 14) as usize,
        _ => {}
    }
    (s, d, q)
}

fn same(a: &Out, b: &Out) -> bool {
    a.out == b.out && a.t == b.t && a.x == b.x
}

/// One guarded call of `prayer_times_dt`, with the session effects described above.
pub fn call(site: &Site, date: NaiveDate, p: &P) -> Out {
    let plan = {
        let mut g = SESSION.lock().unwrap();
        match g.as_mut() {
            Some(s) if s.enabled => {
                let nb = if s.rng.chance(1, 3) { Some(neighbour(&mut s.rng, site, date, p)) } else { None };
                let fresh = s.rng.chance(1, 4);
                let api = p.w.is_none() && s.rng.chance(1, 24);
                let before = s.rng.range(0, 3);
                let after = s.rng.range(0, 12);
                Some((nb, fresh, api, before, after))
            }
            _ => None,
        }
    };
    let Some((nb, fresh, api, before, after)) = plan else { return raw_call(site, date, p) };
    if let Some((s2, d2, p2)) = &nb {
        let _ = raw_call(s2, *d2, p2);
    }
    let mut out = raw_call(site, date, p);
    let mut notes: Vec<Value> = Vec::new();
    if fresh {
        let (s2, p2) = (*site, p.clone());
        let (ftx, frx) = std::sync::mpsc::channel();
        std::thread::spawn(move || {
            let _ = ftx.send(direct_call(&s2, date, &p2));
        });
        let f = frx.recv_timeout(std::time::Duration::from_secs(CALL_TIMEOUT_S)).unwrap_or_else(|_| hang_out());
        if !same(&f, &out) {
            notes.push(json!({"ev": "impure", "kind": "history", "site": site_json(site), "date": date_json(date), "p": p.json(),
                "in_sequence": {"out": out.out, "t": out.t, "x": out.x}, "fresh_thread": {"out": f.out, "t": f.t, "x": f.x},
                "previous_call": nb.as_ref().map(|(s2, d2, p2)| json!({"site": site_json(s2), "date": date_json(*d2), "p": p2.json()})).unwrap_or(json!("none"))}));
        }
    }
    if api && out.ok() {
        // the same date through the range APIs (sequential, and parallel with 3 workers)
        let params = p.params();
        let loc = site.location();
        let start = date - chrono::Duration::days(before);
        let end = date + chrono::Duration::days(after);
        let dr = DateRange::from(start..=end);
        let r1 = catch_unwind(AssertUnwindSafe(|| prayer_times_dt_rng(&params, loc, &dr)));
        islamic_prayer_times::verif_hooks::set_parallelism(3);
        let r2 = catch_unwind(AssertUnwindSafe(|| prayer_times_dt_rng_block(&params, loc, &dr, 0)));
        islamic_prayer_times::verif_hooks::set_parallelism(0);
        for (name, r) in [("range_api", r1), ("block_api", r2)] {
            let got = match r {
                Ok(m) => m.get(&date).map(project),
                Err(_) => Some(Out { out: "panic", t: [-1; 7], x: [0; 7], msg: String::new() }),
            };
            let ok = got.as_ref().map_or(false, |g| same(g, &out));
            if !ok {
                notes.push(json!({"ev": "impure", "kind": name, "site": site_json(site), "date": date_json(date), "p": p.json(),
                    "range": [dn_of(start), dn_of(end)], "single_date_api": {"out": out.out, "t": out.t, "x": out.x},
                    "range_entry": got.map(|g| json!({"out": g.out, "t": g.t, "x": g.x})).unwrap_or(json!("missing"))}));
            }
        }
    }
    let mut g = SESSION.lock().unwrap();
    if let Some(s) = g.as_mut() {
        if nb.is_some() { s.neighbours += 1; }
        if fresh { s.fresh_checks += 1; }
        if api { s.api_checks += 1; }
        if !notes.is_empty() {
            if s.impure.len() < 50 {
                s.impure.extend(notes);
            }
            out.out = "impure";
        }
    }
    out
}

// ------------------------------------------------------------------------------------------
// Watchdog: every call runs on a persistent worker thread (so thread-local state of the library
// persists from call to call, as in a real program); if a call does not return within CALL_TIMEOUT
// the worker is abandoned (it keeps spinning until the process exits), the call is reported as
// `hang`, and after the second hang the trace is closed early.

pub const CALL_TIMEOUT_S: u64 = 20;
pub static HANGS: std::sync::atomic::AtomicUsize = std::sync::atomic::AtomicUsize::new(0);

struct Worker {
    tx: std::sync::mpsc::Sender<(Site, NaiveDate, P)>,
    rx: std::sync::mpsc::Receiver<Out>,
}

static WORKER: std::sync::Mutex<Option<Worker>> = std::sync::Mutex::new(None);

fn spawn_worker() -> Worker {
    let (tx, jobs) = std::sync::mpsc::channel::<(Site, NaiveDate, P)>();
    let (res, rx) = std::sync::mpsc::channel::<Out>();
    std::thread::Builder::new()
        .stack_size(16 << 20)
        .spawn(move || {
            for (s, d, p) in jobs {
                if res.send(direct_call(&s, d, &p)).is_err() {
                    break;
                }
            }
        })
        .unwrap();
    Worker { tx, rx }
}

fn hang_out() -> Out {
    Out { out: "hang", t: [-1; 7], x: [0; 7], msg: format!("no result within {CALL_TIMEOUT_S} s") }
}

/// One guarded call of `prayer_times_dt` on the worker thread. A panic or a hang is data.
pub fn raw_call(site: &Site, date: NaiveDate, p: &P) -> Out {
    let mut g = WORKER.lock().unwrap();
    let w = g.get_or_insert_with(spawn_worker);
    if w.tx.send((*site, date, p.clone())).is_err() {
        *g = None;
        return direct_call(site, date, p);
    }
    match w.rx.recv_timeout(std::time::Duration::from_secs(CALL_TIMEOUT_S)) {
        Ok(o) => o,
        Err(_) => {
            *g = None;
            HANGS.fetch_add(1, std::sync::atomic::Ordering::SeqCst);
            if let Some(s) = SESSION.lock().unwrap().as_mut() {
                s.impure.push(json!({"ev": "hang", "site": site_json(site), "date": date_json(date), "p": p.json(),
                    "timeout_s": CALL_TIMEOUT_S}));
            }
            hang_out()
        }
    }
}

/// The call itself, on the current thread. A panic is data.
pub fn direct_call(site: &Site, date: NaiveDate, p: &P) -> Out {
    let params = p.params();
    let loc = site.location();
    let w = p.weather();
    match catch_unwind(AssertUnwindSafe(|| prayer_times_dt(&params, loc, date, w))) {
        Ok(m) => project(&m),
        Err(e) => {
            let msg = if let Some(s) = e.downcast_ref::<String>() {
                s.clone()
            } else if let Some(s) = e.downcast_ref::<&str>() {
                s.to_string()
            } else {
                "panic".to_string()
            };
            Out {
                out: "panic",
                t: [-1; 7],
                x: [0; 7],
                msg,
            }
        }
    }
}

pub fn site_json(s: &Site) -> Value {
    json!({"lat": s.lat, "lon": s.lon, "el": s.el, "gmt": s.gmt, "dlat": s.dlat})
}

pub fn date_json(d: NaiveDate) -> Value {
    json!({"y": d.year(), "m": d.month(), "d": d.day(), "dn": dn_of(d)})
}

/// Merge JSON objects (later keys win).
pub fn merge(objs: &[Value]) -> Value {
    let mut m = serde_json::Map::new();
    for o in objs {
        if let Value::Object(mm) = o {
            for (k, v) in mm {
                m.insert(k.clone(), v.clone());
            }
        }
    }
    Value::Object(m)
}

pub struct TraceWriter {
    w: std::io::BufWriter<std::fs::File>,
    pub n: usize,
}

impl TraceWriter {
    pub fn create(path: &str) -> Self {
        let f = std::fs::File::create(path).unwrap_or_else(|e| panic!("create {path}: {e}"));
        TraceWriter {
            w: std::io::BufWriter::new(f),
            n: 0,
        }
    }
    pub fn emit(&mut self, v: Value) {
        serde_json::to_writer(&mut self.w, &v).unwrap();
        self.w.write_all(b"\n").unwrap();
        self.n += 1;
        if HANGS.load(std::sync::atomic::Ordering::SeqCst) >= 2 {
            // two calls never returned: stop generating (each leaves a spinning thread behind)
            let notes: Vec<Value> = SESSION.lock().unwrap().as_mut().map(|s| s.impure.drain(..).collect()).unwrap_or_default();
            for nv in notes {
                serde_json::to_writer(&mut self.w, &nv).unwrap();
                self.w.write_all(b"\n").unwrap();
                self.n += 1;
            }
            self.w.flush().unwrap();
            println!("{}", json!({"events": self.n, "aborted_after_hangs": 2}));
            std::process::exit(0);
        }
    }
    pub fn finish(mut self) -> usize {
        self.w.flush().unwrap();
        self.n
    }
}

pub fn silence_panics() {
    std::panic::set_hook(Box::new(|_| {}));
}

/// Parse `--key value` style arguments.
pub struct Args(pub Vec<String>);

impl Args {
    pub fn get(&self, key: &str) -> Option<String> {
        let k = format!("--{key}");
        self.0
            .iter()
            .position(|a| *a == k)
            .and_then(|i| self.0.get(i + 1).cloned())
    }
    pub fn num(&self, key: &str, default: i64) -> i64 {
        self.get(key).map(|s| s.parse().unwrap()).unwrap_or(default)
    }
    pub fn str(&self, key: &str, default: &str) -> String {
        self.get(key).unwrap_or_else(|| default.to_string())
    }
    pub fn flag(&self, key: &str) -> bool {
        self.0.iter().any(|a| *a == format!("--{key}"))
    }
}

/// Valid gmt offsets (seconds) within `max_h` hours of lon/15, on the whole/half-hour grid.
pub fn gmt_choices(lon: i64, max_h: f64) -> Vec<i64> {
    let mut v = Vec::new();
    let mut g = -12 * 3600;
    while g <= 12 * 3600 {
        let mean = lon as f64 / 1e4 / 15.;
        if (g as f64 / 3600. - mean).abs() <= max_h {
            v.push(g);
        }
        g += 1800;
    }
    v
}

/// The natural zone of a longitude (nearest whole hour).
pub fn natural_gmt(lon: i64) -> i64 {
    let h = (lon as f64 / 1e4 / 15.).round() as i64;
    h.clamp(-12, 12) * 3600
}

// ------------------------------------------------------------------------------------------
// child processes with a time limit (C19, bin/conform): stdout / stderr go to files so that a long listing cannot block
// on a full pipe; a process that does not end within the limit is killed and reported with exit code -7 ("hang")
pub trait OutputT {
    fn output_t(&mut self) -> std::io::Result<std::process::Output>;
}

impl OutputT for std::process::Command {
    fn output_t(&mut self) -> std::io::Result<std::process::Output> {
        use std::os::unix::process::ExitStatusExt;
        static SEQ: std::sync::atomic::AtomicU64 = std::sync::atomic::AtomicU64::new(0);
        let k = SEQ.fetch_add(1, std::sync::atomic::Ordering::SeqCst);
        let base = std::env::temp_dir().join(format!("ipt-harness-{}-{}", std::process::id(), k));
        let (po, pe) = (base.with_extension("out"), base.with_extension("err"));
        let mut child = self.stdout(std::fs::File::create(&po)?).stderr(std::fs::File::create(&pe)?).spawn()?;
        let deadline = std::time::Instant::now() + std::time::Duration::from_secs(120);
        let status = loop {
            if let Some(st) = child.try_wait()? {
                break st;
            }
            if std::time::Instant::now() >= deadline {
                let _ = child.kill();
                let _ = child.wait();
                break std::process::ExitStatus::from_raw((-7i32 & 0xff) << 8);
            }
            std::thread::sleep(std::time::Duration::from_millis(5));
        };
        let out = std::process::Output { status, stdout: std::fs::read(&po).unwrap_or_default(), stderr: std::fs::read(&pe).unwrap_or_default() };
        let _ = std::fs::remove_file(&po);
        let _ = std::fs::remove_file(&pe);
        Ok(out)
    }
}
