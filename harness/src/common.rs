//! Shared pieces of the conformance harness: PRNG, integer-grid inputs, construction of the
//! library's types, one guarded public call, projection of results to integers.
//!
//! The harness never judges a property. It drives the public API, projects arguments and
//! results to the integer units used by the TLA+ specification (DESIGN §4.1) and writes one JSON
//! object per line; TLC decides.

use std::collections::BTreeMap;
use std::io::Write;
use std::panic::{catch_unwind, AssertUnwindSafe};

use chrono::{Datelike, NaiveDate};
use islamic_prayer_times::*;
use serde_json::{json, Value};

pub const PRAYERS: [Prayer; 7] = [
    Prayer::Imsaak,
    Prayer::Fajr,
    Prayer::Shurooq,
    Prayer::Dhuhr,
    Prayer::Asr,
    Prayer::Maghrib,
    Prayer::Isha,
];

pub const METHODS: [Method; 9] = [
    Method::None,
    Method::Egyptian,
    Method::Egypt,
    Method::Shafi,
    Method::Hanafi,
    Method::Isna,
    Method::Mwl,
    Method::UmmAlQurra,
    Method::FixedIsha,
];

pub const METHOD_NAMES: [&str; 9] = [
    "none",
    "egyptian",
    "egypt",
    "shafi",
    "hanafi",
    "isna",
    "mwl",
    "umm-al-qurra",
    "fixed-isha",
];

/// SplitMix64: tiny, seedable, dependency-free.
#[derive(Clone)]
pub struct Rng(pub u64);

impl Rng {
    pub fn new(seed: u64) -> Self {
        Rng(seed.wrapping_mul(0x9E3779B97F4A7C15).wrapping_add(0x1234_5678_9abc_def1))
    }
    pub fn next(&mut self) -> u64 {
        self.0 = self.0.wrapping_add(0x9E3779B97F4A7C15);
        let mut z = self.0;
        z = (z ^ (z >> 30)).wrapping_mul(0xBF58476D1CE4E5B9);
        z = (z ^ (z >> 27)).wrapping_mul(0x94D049BB133111EB);
        z ^ (z >> 31)
    }
    /// uniform in [lo, hi] inclusive
    pub fn range(&mut self, lo: i64, hi: i64) -> i64 {
        debug_assert!(hi >= lo);
        let span = (hi - lo) as u64 + 1;
        lo + (self.next() % span) as i64
    }
    pub fn pick<T: Copy>(&mut self, xs: &[T]) -> T {
        xs[(self.next() % xs.len() as u64) as usize]
    }
    pub fn chance(&mut self, num: u64, den: u64) -> bool {
        self.next() % den < num
    }
}

/// Days since 2000-01-01 (the spec's `dn`).
pub fn dn_of(date: NaiveDate) -> i64 {
    (date - NaiveDate::from_ymd_opt(2000, 1, 1).unwrap()).num_days()
}

pub fn date_of_dn(dn: i64) -> NaiveDate {
    NaiveDate::from_ymd_opt(2000, 1, 1).unwrap() + chrono::Duration::days(dn)
}

pub fn ymd(y: i32, m: u32, d: u32) -> NaiveDate {
    NaiveDate::from_ymd_opt(y, m, d).unwrap()
}

/// A site on the integer grid: lat/lon in 1e-4 degree, elevation in metres, gmt in seconds.
#[derive(Clone, Copy, Debug, PartialEq)]
pub struct Site {
    pub lat: i64,
    pub lon: i64,
    pub el: i64,
    pub gmt: i64,
}

impl Site {
    pub fn location(&self) -> Location {
        Location {
            coords: Coordinates::new(
                Latitude::try_from(self.lat as f64 / 1e4).unwrap(),
                Longitude::try_from(self.lon as f64 / 1e4).unwrap(),
                Elevation::try_from(self.el as f64).unwrap(),
            ),
            gmt: Gmt::try_from(self.gmt as f64 / 3600.).unwrap(),
        }
    }
}

/// Extreme-latitude policy index (the spec's `pol`), 0 = None .. 14.
pub const POLICY_NAMES: [&str; 15] = [
    "None",
    "AngleBased",
    "NearestLatitudeAllPrayersAlways",
    "NearestLatitudeFajrIshaAlways",
    "NearestLatitudeFajrIshaInvalid",
    "NearestGoodDayAllPrayersAlways",
    "NearestGoodDayFajrIshaInvalid",
    "SeventhOfNightFajrIshaAlways",
    "SeventhOfNightFajrIshaInvalid",
    "SeventhOfDayFajrIshaAlways",
    "SeventhOfDayFajrIshaInvalid",
    "HalfOfNightFajrIshaAlways",
    "HalfOfNightFajrIshaInvalid",
    "MinutesFromMaghribFajrIshaAlways",
    "MinutesFromMaghribFajrIshaInvalid",
];

pub fn policy(idx: usize, nl: i64) -> ExtremeLatitudeMethod {
    use ExtremeLatitudeMethod::*;
    let l = || Latitude::try_from(nl as f64 / 1e4).unwrap();
    match idx {
        0 => None,
        1 => AngleBased,
        2 => NearestLatitudeAllPrayersAlways(l()),
        3 => NearestLatitudeFajrIshaAlways(l()),
        4 => NearestLatitudeFajrIshaInvalid(l()),
        5 => NearestGoodDayAllPrayersAlways,
        6 => NearestGoodDayFajrIshaInvalid,
        7 => SeventhOfNightFajrIshaAlways,
        8 => SeventhOfNightFajrIshaInvalid,
        9 => SeventhOfDayFajrIshaAlways,
        10 => SeventhOfDayFajrIshaInvalid,
        11 => HalfOfNightFajrIshaAlways,
        12 => HalfOfNightFajrIshaInvalid,
        13 => MinutesFromMaghribFajrIshaAlways,
        14 => MinutesFromMaghribFajrIshaInvalid,
        _ => unreachable!(),
    }
}

/// Parameter set on the integer grid.
/// angles in 1e-4 degree; intervals and offsets in seconds (the library takes minutes: s/60).
#[derive(Clone, Debug, PartialEq)]
pub struct P {
    pub meth: usize,
    pub pol: usize,
    pub nl: i64,
    pub fa: i64,
    pub ia: i64,
    pub ima: i64,
    pub fi: i64,
    pub ii: i64,
    pub imi: i64,
    pub off: [i64; 7],
    pub rnd: usize,
    pub sch: usize,
    /// (pressure mbar*10, temperature C*10)
    pub w: Option<(i64, i64)>,
}

impl P {
    /// The parameter set `Params::new(method)` produces, read back from the library itself
    /// (so a change of the method table is visible in the events, not masked by the harness).
    pub fn of_method(meth: usize) -> P {
        let p = Params::new(METHODS[meth]);
        let g = |m: &std::collections::HashMap<Prayer, f64>, k: Prayer, s: f64| -> i64 {
            (m.get(&k).copied().unwrap_or(0.) * s).round() as i64
        };
        let mut off = [0i64; 7];
        for (i, pr) in PRAYERS.iter().enumerate() {
            off[i] = g(&p.minutes, *pr, 60.);
        }
        P {
            meth,
            pol: policy_index(p.extreme_latitude_method),
            nl: policy_lat(p.extreme_latitude_method),
            fa: g(&p.angles, Prayer::Fajr, 1e4),
            ia: g(&p.angles, Prayer::Isha, 1e4),
            ima: g(&p.angles, Prayer::Imsaak, 1e4),
            fi: g(&p.intervals, Prayer::Fajr, 60.),
            ii: g(&p.intervals, Prayer::Isha, 60.),
            imi: g(&p.intervals, Prayer::Imsaak, 60.),
            off,
            rnd: match p.round_seconds {
                RoundSeconds::None => 0,
                RoundSeconds::NormalRounding => 1,
                RoundSeconds::SpecialRounding => 2,
                RoundSeconds::AggressiveRounding => 3,
            },
            sch: p.asr_shadow_ratio as usize,
            w: None,
        }
    }

    /// "raw conventional hours" view of a parameter set: no policy, no rounding.
    pub fn raw(&self) -> P {
        let mut q = self.clone();
        q.pol = 0;
        q.rnd = 0;
        q
    }

    pub fn params(&self) -> Params {
        let mut p = Params::new(METHODS[self.meth]);
        p.extreme_latitude_method = policy(self.pol, self.nl);
        p.round_seconds = match self.rnd {
            0 => RoundSeconds::None,
            1 => RoundSeconds::NormalRounding,
            2 => RoundSeconds::SpecialRounding,
            _ => RoundSeconds::AggressiveRounding,
        };
        p.asr_shadow_ratio = if self.sch == 2 {
            AsrShadowRatio::Hanafi
        } else {
            AsrShadowRatio::Shafi
        };
        p.angles.insert(Prayer::Fajr, self.fa as f64 / 1e4);
        p.angles.insert(Prayer::Isha, self.ia as f64 / 1e4);
        p.angles.insert(Prayer::Imsaak, self.ima as f64 / 1e4);
        p.intervals.insert(Prayer::Fajr, self.fi as f64 / 60.);
        p.intervals.insert(Prayer::Isha, self.ii as f64 / 60.);
        p.intervals.insert(Prayer::Imsaak, self.imi as f64 / 60.);
        for (i, pr) in PRAYERS.iter().enumerate() {
            p.minutes.insert(*pr, self.off[i] as f64 / 60.);
        }
        p
    }

    pub fn weather(&self) -> Option<Weather> {
        self.w.map(|(p, t)| Weather {
            pressure: Pressure::try_from(p as f64 / 10.).unwrap(),
            temperature: Temperature::try_from(t as f64 / 10.).unwrap(),
        })
    }

    pub fn json(&self) -> Value {
        json!({
            "meth": self.meth, "pol": self.pol, "nl": self.nl,
            "fa": self.fa, "ia": self.ia, "ima": self.ima,
            "fi": self.fi, "ii": self.ii, "imi": self.imi,
            "off": self.off, "rnd": self.rnd, "sch": self.sch,
            "w": match self.w { Some((p,t)) => json!([p,t]), None => json!([]) },
        })
    }
}

pub fn policy_index(m: ExtremeLatitudeMethod) -> usize {
    use ExtremeLatitudeMethod::*;
    match m {
        None => 0,
        AngleBased => 1,
        NearestLatitudeAllPrayersAlways(_) => 2,
        NearestLatitudeFajrIshaAlways(_) => 3,
        NearestLatitudeFajrIshaInvalid(_) => 4,
        NearestGoodDayAllPrayersAlways => 5,
        NearestGoodDayFajrIshaInvalid => 6,
        SeventhOfNightFajrIshaAlways => 7,
        SeventhOfNightFajrIshaInvalid => 8,
        SeventhOfDayFajrIshaAlways => 9,
        SeventhOfDayFajrIshaInvalid => 10,
        HalfOfNightFajrIshaAlways => 11,
        HalfOfNightFajrIshaInvalid => 12,
        MinutesFromMaghribFajrIshaAlways => 13,
        MinutesFromMaghribFajrIshaInvalid => 14,
    }
}

pub fn policy_lat(m: ExtremeLatitudeMethod) -> i64 {
    use ExtremeLatitudeMethod::*;
    match m {
        NearestLatitudeAllPrayersAlways(l)
        | NearestLatitudeFajrIshaAlways(l)
        | NearestLatitudeFajrIshaInvalid(l) => (f64::from(l) * 1e4).round() as i64,
        _ => 485000,
    }
}

/// Result of one public call, projected.
#[derive(Clone, Debug, PartialEq)]
pub struct Out {
    /// "ret7" | "keys" (wrong key set) | "panic"
    pub out: &'static str,
    /// seconds of the civil day, -1 = Invalid
    pub t: [i64; 7],
    pub x: [i64; 7],
    pub msg: String,
}

impl Out {
    pub fn json(&self) -> Value {
        json!({"out": self.out, "t": self.t, "x": self.x})
    }
    pub fn ok(&self) -> bool {
        self.out == "ret7"
    }
}

pub fn project(m: &BTreeMap<Prayer, Result<PrayerTime, ()>>) -> Out {
    use chrono::Timelike;
    let mut t = [-1i64; 7];
    let mut x = [0i64; 7];
    let mut keys_ok = m.len() == 7;
    for (i, pr) in PRAYERS.iter().enumerate() {
        match m.get(pr) {
            Some(Ok(pt)) => {
                t[i] = pt.time.num_seconds_from_midnight() as i64;
                x[i] = pt.extreme as i64;
            }
            Some(Err(())) => {}
            None => keys_ok = false,
        }
    }
    Out {
        out: if keys_ok { "ret7" } else { "keys" },
        t,
        x,
        msg: String::new(),
    }
}

/// One guarded call of `prayer_times_dt`. A panic is data.
pub fn call(site: &Site, date: NaiveDate, p: &P) -> Out {
    let params = p.params();
    let loc = site.location();
    let w = p.weather();
    match catch_unwind(AssertUnwindSafe(|| prayer_times_dt(&params, loc, date, w))) {
        Ok(m) => project(&m),
        Err(e) => {
            let msg = if let Some(s) = e.downcast_ref::<String>() {
                s.clone()
            } else if let Some(s) = e.downcast_ref::<&str>() {
                s.to_string()
            } else {
                "panic".to_string()
            };
            Out {
                out: "panic",
                t: [-1; 7],
                x: [0; 7],
                msg,
            }
        }
    }
}

pub fn site_json(s: &Site) -> Value {
    json!({"lat": s.lat, "lon": s.lon, "el": s.el, "gmt": s.gmt})
}

pub fn date_json(d: NaiveDate) -> Value {
    json!({"y": d.year(), "m": d.month(), "d": d.day(), "dn": dn_of(d)})
}

/// Merge JSON objects (later keys win).
pub fn merge(objs: &[Value]) -> Value {
    let mut m = serde_json::Map::new();
    for o in objs {
        if let Value::Object(mm) = o {
            for (k, v) in mm {
                m.insert(k.clone(), v.clone());
            }
        }
    }
    Value::Object(m)
}

pub struct TraceWriter {
    w: std::io::BufWriter<std::fs::File>,
    pub n: usize,
}

impl TraceWriter {
    pub fn create(path: &str) -> Self {
        let f = std::fs::File::create(path).unwrap_or_else(|e| panic!("create {path}: {e}"));
        TraceWriter {
            w: std::io::BufWriter::new(f),
            n: 0,
        }
    }
    pub fn emit(&mut self, v: Value) {
        serde_json::to_writer(&mut self.w, &v).unwrap();
        self.w.write_all(b"\n").unwrap();
        self.n += 1;
    }
    pub fn finish(mut self) -> usize {
        self.w.flush().unwrap();
        self.n
    }
}

pub fn silence_panics() {
    std::panic::set_hook(Box::new(|_| {}));
}

/// Parse `--key value` style arguments.
pub struct Args(pub Vec<String>);

impl Args {
    pub fn get(&self, key: &str) -> Option<String> {
        let k = format!("--{key}");
        self.0
            .iter()
            .position(|a| *a == k)
            .and_then(|i| self.0.get(i + 1).cloned())
    }
    pub fn num(&self, key: &str, default: i64) -> i64 {
        self.get(key).map(|s| s.parse().unwrap()).unwrap_or(default)
    }
    pub fn str(&self, key: &str, default: &str) -> String {
        self.get(key).unwrap_or_else(|| default.to_string())
    }
    pub fn flag(&self, key: &str) -> bool {
        self.0.iter().any(|a| *a == format!("--{key}"))
    }
}

/// Valid gmt offsets (seconds) within `max_h` hours of lon/15, on the whole/half-hour grid.
pub fn gmt_choices(lon: i64, max_h: f64) -> Vec<i64> {
    let mut v = Vec::new();
    let mut g = -12 * 3600;
    while g <= 12 * 3600 {
        let mean = lon as f64 / 1e4 / 15.;
        if (g as f64 / 3600. - mean).abs() <= max_h {
            v.push(g);
        }
        g += 1800;
    }
    v
}

/// The natural zone of a longitude (nearest whole hour).
pub fn natural_gmt(lon: i64) -> i64 {
    let h = (lon as f64 / 1e4 / 15.).round() as i64;
    h.clamp(-12, 12) * 3600
}
