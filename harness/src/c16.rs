//! C16: Qibla calls (grid, random, meridian / date-line strata) and symmetry pairs.

use std::panic::{catch_unwind, AssertUnwindSafe};

use islamic_prayer_times::*;
use serde_json::{json, Value};

use crate::common::*;

const KLON: f64 = 39.823333;

fn coords(lat: f64, lon: f64, el: f64) -> Coordinates {
    Coordinates::new(
        Latitude::try_from(lat).unwrap(),
        Longitude::try_from(lon).unwrap(),
        Elevation::try_from(el).unwrap(),
    )
}

fn qu(lat: f64, lon: f64, el: f64) -> i64 {
    (Qibla::new(coords(lat, lon, el)).degrees() * 1e6).round() as i64
}

fn call_event(lat: i64, lon: i64, el: i64) -> Value {
    let r = catch_unwind(AssertUnwindSafe(|| {
        let q = Qibla::new(coords(lat as f64 / 1e4, lon as f64 / 1e4, el as f64));
        let deg = q.degrees();
        let rot = format!("{}", q.rotation());
        let txt = format!("{}", q);
        (deg, rot, txt)
    }));
    match r {
        Ok((deg, rot, txt)) => {
            // parse the printed text back: "<d.d>° <LABEL>"
            let mut parts = txt.split("° ");
            let num = parts.next().unwrap_or("");
            let lab = parts.next().unwrap_or("");
            let txt10 = num.parse::<f64>().map(|x| (x * 10.).round() as i64).unwrap_or(-1);
            let well_formed = num.len() >= 3 && num.as_bytes()[num.len() - 2] == b'.';
            json!({"ev": "qib", "out": "ret", "lat": lat, "lon": lon, "el": el,
                "q": (deg * 1e4).round() as i64, "qu": (deg * 1e6).round() as i64, "rot": rot,
                "txt": txt, "txt10": if well_formed { txt10 } else { -1 }, "txtlab": lab})
        }
        Err(_) => json!({"ev": "qib", "out": "panic", "lat": lat, "lon": lon, "el": el, "q": 0, "qu": 0,
            "rot": "", "txt": "", "txt10": -1, "txtlab": ""}),
    }
}

pub fn gen(args: &Args) {
    let seed = args.num("seed", 1) as u64;
    let thorough = args.str("tier", "quick") == "thorough";
    let mut r = Rng::new(seed ^ 0xC16);
    let mut w = TraceWriter::create(&args.str("out", "c16.ndjson"));
    let els = [0i64, -420, 8848, 1234];
    // grid
    let step = if thorough { 10_000 } else { 50_000 };
    let mut lat = -890_000i64;
    while lat <= 890_000 {
        let mut lon = -1_800_000i64;
        while lon <= 1_800_000 {
            w.emit(call_event(lat, lon, els[((lat + lon) / step).rem_euclid(4) as usize]));
            lon += step;
        }
        lat += step;
    }
    // random + strata: date line, Kaaba meridian / antimeridian, near the Kaaba and its antipode
    let n = if thorough { 60000 } else { 6000 };
    for i in 0..n {
        let lat = match i % 7 {
            0 => r.range(-899_999, 899_999),
            1 => 214_233 + r.range(-30_000, 30_000),
            2 => -214_233 + r.range(-30_000, 30_000),
            _ => r.range(-890_000, 890_000),
        };
        let lon = match i % 5 {
            0 => *[1_800_000i64, -1_800_000, 1_799_999, -1_799_999][..].get((r.next() % 4) as usize).unwrap(),
            1 => 398_233 + r.range(-30_000, 30_000),
            2 => -1_401_767 + r.range(-30_000, 30_000),
            _ => r.range(-1_800_000, 1_800_000),
        };
        w.emit(call_event(lat, lon, r.range(-420, 8848)));
    }
    // exactly on (the 1e-4 degree grid point nearest to) the Kaaba's meridian and antimeridian, all latitudes
    let mut lat = -880_000i64;
    while lat <= 880_000 {
        w.emit(call_event(lat, 398_233, 0));
        w.emit(call_event(lat, -1_401_767, 0));
        lat += if thorough { 10_000 } else { 40_000 };
    }
    // sequences: a call right after a related one (swapped coordinates, two diagonal points, a repeat, a mirror)
    for _ in 0..(if thorough { 4000 } else { 600 }) {
        let a = r.range(-890_000, 890_000);
        let b = r.range(-890_000, 890_000);
        w.emit(call_event(a, b, 0));
        w.emit(call_event(b, a, 0));
        w.emit(call_event(a, a, 0));
        w.emit(call_event(b, b, 0));
        w.emit(call_event(a, b, 0));
        w.emit(call_event(a, -b, 0));
        w.emit(call_event(-a, b, r.range(-420, 8848)));
    }
    // symmetry pairs at micro-degree resolution
    let m = if thorough { 40000 } else { 4000 };
    for i in 0..m {
        let lat = r.range(-8_900_000, 8_900_000) as f64 / 1e5;
        let d = r.range(1, 17_999_999) as f64 / 1e5;
        match i % 4 {
            0 => {
                let lon = r.range(-18_000_000, 18_000_000) as f64 / 1e5;
                let (e1, e2) = (r.range(-420, 8848) as f64, r.range(-420, 8848) as f64);
                w.emit(json!({"ev": "qpair", "kind": "elev", "lat": lat, "lon": lon, "qa": qu(lat, lon, e1), "qb": qu(lat, lon, e2)}));
            }
            1 => {
                let (le, lw) = (KLON + d, KLON - d);
                if le <= 180. && lw >= -180. {
                    w.emit(json!({"ev": "qpair", "kind": "mirror", "lat": lat, "d": d, "qa": qu(lat, le, 0.), "qb": qu(lat, lw, 0.)}));
                }
            }
            2 => {
                let lon = if r.chance(1, 2) { KLON } else { KLON - 180. };
                w.emit(json!({"ev": "qpair", "kind": "meridian", "lat": lat, "lon": lon, "lat5": (lat * 1e5).round() as i64,
                    "anti": lon < 0., "qa": qu(lat, lon, 0.), "qb": 0}));
            }
            _ => {
                let east = r.chance(1, 2);
                let mut lon = if east { KLON + d } else { KLON - d };
                if lon > 180. {
                    lon -= 360.;
                }
                if lon < -180. {
                    lon += 360.;
                }
                // east of the Kaaba's meridian (going east less than 180 degrees) or west of it
                if (d - 180.).abs() > 0.01 && d > 0.01 {
                    w.emit(json!({"ev": "qpair", "kind": "side", "lat": lat, "lon": lon, "east": east, "qa": qu(lat, lon, 0.), "qb": 0}));
                }
            }
        }
    }
    // the same calls made from several threads at once (a result must not depend on what other threads ask)
    let n_thr = 6;
    let per = if thorough { 4000 } else { 700 };
    let mut handles = Vec::new();
    for t in 0..n_thr {
        let mut rr = Rng::new(seed ^ (0xC16C + t as u64));
        handles.push(std::thread::spawn(move || {
            let mut evs = Vec::new();
            // each thread keeps returning to a few cities of its own, like a server answering different users
            let cities: Vec<(i64, i64)> = (0..5).map(|_| (rr.range(-700_000, 700_000), rr.range(-1_800_000, 1_800_000))).collect();
            for i in 0..per {
                let (lat, lon) = if i % 3 == 0 { (rr.range(-890_000, 890_000), rr.range(-1_800_000, 1_800_000)) } else { cities[(rr.next() % 5) as usize] };
                evs.push(call_event(lat, lon, 0));
            }
            evs
        }));
    }
    let mut conc = 0;
    for h in handles {
        for e in h.join().unwrap_or_default() {
            conc += 1;
            w.emit(e);
        }
    }
    let k = w.finish();
    println!("{}", json!({"events": k, "concurrent_calls": conc}));
}
