//! Event generators for the solar properties C01-C04, C06, C13, C20 (judged by SolarTrace.tla).

use chrono::{Datelike, NaiveDate};
use serde_json::{json, Value};

use crate::common::*;
use crate::pd::{rand_date, rand_site};

fn res_json(o: &Out) -> Value {
    json!({"t": o.t, "x": o.x})
}

fn ev(name: &str, site: &Site, date: NaiveDate, p: &P, o: &Out) -> Value {
    json!({"ev": name, "site": site_json(site), "date": date_json(date), "p": p.json(),
           "out": o.out, "r": res_json(o)})
}

fn plain(meth: usize) -> P {
    let mut p = P::of_method(meth);
    p.pol = 0;
    p.rnd = 0;
    p
}

/// stratified dates: equinox week, month/year ends, leap days, plus uniform
fn strat_dates(r: &mut Rng, n_years: i64, n_random: i64) -> Vec<NaiveDate> {
    let mut v = Vec::new();
    for _ in 0..n_years {
        let y = r.range(1600, 2398) as i32;
        for d in 17..=24 {
            v.push(ymd(y, 3, d));
        }
        v.push(ymd(y, 2, 28));
        v.push(ymd(y, 3, 1));
        if NaiveDate::from_ymd_opt(y, 2, 29).is_some() {
            v.push(ymd(y, 2, 29));
        }
        v.push(ymd(y, 12, 30));
        v.push(ymd(y, 12, 31));
        v.push(ymd(y + 1, 1, 1));
        v.push(ymd(y + 1, 1, 2));
        v.push(ymd(y, 9, 22));
        v.push(ymd(y, 6, 21));
    }
    // calendar structure of the Julian-day formula: century years (Gregorian correction) and the
    // January/February year shift, for every century of the range and its neighbours
    let mut c = 1600;
    while c <= 2300 {
        for y in [c - 1, c, c + 1] {
            if y < 1600 {
                continue;
            }
            for (m, d) in [(1, 1), (1, 2), (1, 15), (1, 31), (2, 1), (2, 28), (3, 1), (12, 30), (12, 31)] {
                v.push(ymd(y, m, d));
            }
        }
        c += 100;
    }
    for _ in 0..n_random {
        v.push(rand_date(r));
    }
    v
}

/// all dates 1600-01-01..2399-12-31 with a stride (thorough)
fn all_dates(stride: i64, phase: i64) -> Vec<NaiveDate> {
    let a = dn_of(ymd(1600, 1, 1));
    let b = dn_of(ymd(2399, 12, 31));
    let mut v = Vec::new();
    let mut k = a + phase.rem_euclid(stride);
    while k <= b {
        v.push(date_of_dn(k));
        k += stride;
    }
    v
}

fn dates_for(args: &Args, r: &mut Rng) -> Vec<NaiveDate> {
    if args.str("tier", "quick") == "thorough" {
        let stride = args.num("stride", 1);
        let mut v = all_dates(stride, r.range(0, stride.max(1) - 1));
        v.extend(strat_dates(r, 60, 0));
        v
    } else {
        strat_dates(r, args.num("years", 40), args.num("random", 2500))
    }
}

// ------------------------------------------------------------------------------------------
pub fn gen_c01(args: &Args) {
    let seed = args.num("seed", 1) as u64;
    session_start(seed);
    let mut r = Rng::new(seed ^ 0xC01);
    let mut w = TraceWriter::create(&args.str("out", "c01.ndjson"));
    let dates = dates_for(args, &mut r);
    for date in dates {
        // all latitudes incl. the poles; gmt within 6 h of lon/15 on the half-hour grid
        let mut site = rand_site(&mut r, 900_000, 0);
        if r.chance(1, 12) {
            site.lat = if r.chance(1, 2) { 900_000 } else { -900_000 };
        }
        let gs = gmt_choices(site.lon, 6.0);
        site.gmt = gs[(r.next() % gs.len() as u64) as usize];
        if r.chance(1, 4) {
            // zone offsets are any real number of hours in [-12, 12]: local mean time, odd seconds
            let lmt = (site.lon as f64 / 1e4 * 240.0).round() as i64;
            site.gmt = match r.range(0, 2) {
                0 => lmt,
                1 => (site.gmt + r.range(-1700, 1700)).clamp(-43200, 43200),
                _ => (lmt + r.range(-3 * 3600, 3 * 3600)).clamp(-43200, 43200),
            };
        }
        let p = plain(r.range(0, 8) as usize);
        let o = call(&site, date, &p);
        w.emit(ev("c01", &site, date, &p, &o));
    }
    let session = session_flush(&mut w);
    let k = w.finish();
    println!("{}", json!({"session": session, "events": k}));
}

fn site60(r: &mut Rng, zone_h: i64) -> Site {
    rand_site(r, 600_000, zone_h)
}

pub fn gen_c02(args: &Args) {
    let seed = args.num("seed", 1) as u64;
    session_start(seed);
    let mut r = Rng::new(seed ^ 0xC02);
    let mut w = TraceWriter::create(&args.str("out", "c02.ndjson"));
    let dates = dates_for(args, &mut r);
    let mut n_pairs = 0;
    for (i, date) in dates.into_iter().enumerate() {
        let site = site60(&mut r, 2);
        let mut p = plain(r.range(0, 8) as usize);
        p.w = match r.range(0, 3) {
            0 => None,
            1 => Some((*pick(&mut r, &[1000, 10500]), *pick(&mut r, &[-900, 570]))),
            _ => Some((r.range(1000, 10500), r.range(-900, 570))),
        };
        if r.chance(1, 3) {
            // any policy (mostly the library default): unflagged entries must still be conventional
            p.pol = if r.chance(1, 2) { 6 } else { r.range(1, 14) as usize };
        }
        let o = call(&site, date, &p);
        w.emit(ev("c02", &site, date, &p, &o));
        if i % 3 == 0 {
            // the same call without / with weather
            let mut pa = p.clone();
            pa.w = None;
            pa.pol = 0;
            let mut pb = pa.clone();
            pb.w = Some((r.range(1000, 10500), r.range(-900, 570)));
            let a = call(&site, date, &pa);
            let b = call(&site, date, &pb);
            if a.ok() && b.ok() {
                n_pairs += 1;
                w.emit(json!({"ev": "c02w", "site": site_json(&site), "date": date_json(date), "p": pb.json(),
                    "a": res_json(&a), "b": res_json(&b)}));
            }
        }
    }
    // policies that replace Shurooq / Maghrib themselves, on days where twilight partly fails: whatever is
    // reported unflagged must still be the conventional sunrise / sunset
    for _ in 0..args.num("edge", 400) {
        let (site, date) = crate::pd::twilight_edge_case(&mut r, 600_000);
        let mut p = plain(*pick(&mut r, &[1usize, 2, 6, 7, 8, 3, 5]));
        p.pol = *pick(&mut r, &[5usize, 2, 5, 6]);
        p.nl = *pick(&mut r, &[485_000i64, -485_000, 300_000]);
        let o = call(&site, date, &p);
        w.emit(ev("c02", &site, date, &p, &o));
    }
    let session = session_flush(&mut w);
    let k = w.finish();
    println!("{}", json!({"session": session, "events": k, "weather_pairs": n_pairs}));
}

fn pick<'a, T>(r: &mut Rng, xs: &'a [T]) -> &'a T {
    &xs[(r.next() % xs.len() as u64) as usize]
}

fn angle_params(r: &mut Rng) -> P {
    // the 6 angle-based methods, or arbitrary angles in [9, 21] / Imsaak angle in [0.5, 3]
    let mut p = plain(*pick(r, &[1usize, 2, 3, 4, 5, 6]));
    if r.chance(1, 2) {
        p.fa = r.range(900, 2100) * 100;
        p.ia = r.range(900, 2100) * 100;
        p.ima = r.range(50, 300) * 100;
    }
    p
}

pub fn gen_c03(args: &Args) {
    let seed = args.num("seed", 1) as u64;
    session_start(seed);
    let mut r = Rng::new(seed ^ 0xC03);
    let mut w = TraceWriter::create(&args.str("out", "c03.ndjson"));
    let dates = dates_for(args, &mut r);
    for (i, date) in dates.into_iter().enumerate() {
        let site = site60(&mut r, 2);
        let mut p = angle_params(&mut r);
        if r.chance(1, 3) {
            // any policy (mostly the library default): unflagged entries must still be at the configured depression
            p.pol = if r.chance(1, 2) { 6 } else { r.range(1, 14) as usize };
        }
        let o = call(&site, date, &p);
        w.emit(ev("c03", &site, date, &p, &o));
        if i % 3 == 0 {
            let mut q = p.clone();
            q.pol = 0;
            let o = if p.pol == 0 { o.clone() } else { let mut p0 = p.clone(); p0.pol = 0; call(&site, date, &p0) };
            q.fa += r.range(1, 300) * 100;
            q.ia += r.range(1, 300) * 100;
            let b = call(&site, date, &q);
            if o.ok() && b.ok() {
                w.emit(json!({"ev": "c03m", "site": site_json(&site), "date": date_json(date), "p": p.json(), "q": q.json(),
                    "a": res_json(&o), "b": res_json(&b)}));
            }
        }
    }
    // boundary probes: just inside the latitude where the twilight stops existing
    let want = args.num("boundaries", 6);
    let (mut found, mut i) = (0, 0);
    while found < want && i < want * 20 {
        i += 1;
        let p = angle_params(&mut r);
        let date = crate::pd::probe_date(&mut r);
        let sites: Vec<Site> = crate::pd::boundary_probes(&mut r, date, &p, if i % 2 == 0 { 1 } else { 6 }, 30, 2)
            .into_iter().filter(|s| s.lat.abs() <= 600_000).collect();
        if !sites.is_empty() {
            found += 1;
        }
        for site in sites {
            let o = call(&site, date, &p);
            w.emit(ev("c03", &site, date, &p, &o));
        }
    }
    let session = session_flush(&mut w);
    let k = w.finish();
    println!("{}", json!({"session": session, "events": k}));
}

pub fn gen_c04(args: &Args) {
    let seed = args.num("seed", 1) as u64;
    session_start(seed);
    let mut r = Rng::new(seed ^ 0xC04);
    let mut w = TraceWriter::create(&args.str("out", "c04.ndjson"));
    let dates = dates_for(args, &mut r);
    let mut zenith = 0;
    for (i, date) in dates.into_iter().enumerate() {
        let mut site = site60(&mut r, 2);
        if i % 5 == 0 {
            // zenith-passage stratum: latitude close to the Sun's declination (a simple analytic
            // approximation of the declination is enough to land within ~0.5 degree)
            let n = date.ordinal() as f64;
            let dec = -23.44 * ((360.0 / 365.24) * (n + 10.0)).to_radians().cos();
            site.lat = ((dec + (r.range(-50, 50) as f64) / 100.0) * 1e4) as i64;
            zenith += 1;
        }
        let mut p = plain(r.range(0, 8) as usize);
        p.sch = r.range(1, 2) as usize;
        if r.chance(1, 3) {
            p.pol = if r.chance(1, 2) { 6 } else { r.range(1, 14) as usize };
        }
        let o = call(&site, date, &p);
        w.emit(ev("c04", &site, date, &p, &o));
        if i % 3 == 0 {
            let mut pa = p.clone();
            pa.sch = 1;
            pa.pol = 0;
            let mut pb = pa.clone();
            pb.sch = 2;
            let a = call(&site, date, &pa);
            let b = call(&site, date, &pb);
            if a.ok() && b.ok() {
                w.emit(json!({"ev": "c04s", "site": site_json(&site), "date": date_json(date), "p": p.json(),
                    "a": res_json(&a), "b": res_json(&b)}));
            }
        }
    }
    let session = session_flush(&mut w);
    let k = w.finish();
    println!("{}", json!({"session": session, "events": k, "zenith_stratum": zenith}));
}

pub fn gen_c06(args: &Args) {
    let seed = args.num("seed", 1) as u64;
    session_start(seed);
    let mut r = Rng::new(seed ^ 0xC06);
    let mut w = TraceWriter::create(&args.str("out", "c06.ndjson"));
    let n = args.num("n", 6000);
    let mut invalid = 0;
    for i in 0..n {
        let mut site = rand_site(&mut r, 895_000, 3);
        // latitude bands where twilight / day / night come and go
        site.lat = match i % 6 {
            0 => r.range(450_000, 700_000),
            1 => -r.range(450_000, 700_000),
            2 => r.range(640_000, 895_000),
            3 => -r.range(640_000, 895_000),
            _ => r.range(-895_000, 895_000),
        };
        let p = angle_params(&mut r);
        let date = if i % 2 == 0 {
            // around the onset/end of missing twilight: the declination at which max depression = angle
            let y = r.range(1600, 2399) as i32;
            let lat = site.lat as f64 / 1e4;
            let crit = 90.0 - lat.abs() - (*pick(&mut r, &[p.fa, p.ia, 8334, -8334 + 1_800_000 - 2 * ((lat.abs() * 1e4) as i64)]) as f64) / 1e4;
            // day of year where |dec| ~ crit (if any), else random
            if crit.abs() < 23.4 {
                let x = (-crit / 23.44).clamp(-1., 1.).acos().to_degrees(); // (360/365.24)(n+10)
                let nday = (x * 365.24 / 360.0 - 10.0).rem_euclid(365.0);
                let nday = if r.chance(1, 2) { nday } else { (355.0 - nday).rem_euclid(365.0) };
                let shift = if lat < 0. { 182.0 } else { 0.0 };
                let doy = ((nday + shift).rem_euclid(365.0)) as i64 + r.range(-10, 10);
                ymd(y, 1, 1) + chrono::Duration::days(doy.rem_euclid(365))
            } else {
                rand_date(&mut r)
            }
        } else {
            rand_date(&mut r)
        };
        let o = call(&site, date, &p);
        if o.t.iter().any(|t| *t < 0) {
            invalid += 1;
        }
        w.emit(ev("c06", &site, date, &p, &o));
    }
    // pole stratum: the last half degree of the property's domain, every second day of a year
    {
        let y = r.range(1600, 2399) as i32;
        let lon = r.range(-1_800_000, 1_800_000);
        for lat in [890_000i64, 893_000, 894_500, 895_000, -894_500, -895_000, 894_000, -893_500] {
            let p = angle_params(&mut r);
            let site = Site { dlat: 0, lat, lon, el: 0, gmt: natural_gmt(lon) };
            let mut d = ymd(y, 1, 1) + chrono::Duration::days(r.range(0, 1));
            while d.year() == y {
                let o = call(&site, d, &p);
                w.emit(ev("c06", &site, d, &p, &o));
                d = d + chrono::Duration::days(2);
            }
        }
    }
    // boundary probes: 0.02 degree steps to +-0.6 degree around the latitude where the library's validity flips,
    // for Fajr, Isha, Shurooq; dates incl. January / February of the non-leap century years
    let mut probes = 0;
    for i in 0..args.num("boundaries", 24) {
        let p = angle_params(&mut r);
        let date = crate::pd::probe_date(&mut r);
        let which = [1usize, 6, 2][(i % 3) as usize];
        for site in crate::pd::boundary_probes(&mut r, date, &p, which, 4, 30) {
            if site.lat.abs() > 895_000 {
                continue;
            }
            let o = call(&site, date, &p);
            probes += 1;
            w.emit(ev("c06", &site, date, &p, &o));
        }
    }
    let session = session_flush(&mut w);
    let k = w.finish();
    println!("{}", json!({"session": session, "events": k, "with_invalid": invalid, "boundary_probes": probes}));
}

// ------------------------------------------------------------------------------------------
// C13 histories

pub fn gen_c13(args: &Args) {
    let seed = args.num("seed", 1) as u64;
    session_start(seed);
    let thorough = args.str("tier", "quick") == "thorough";
    let mut r = Rng::new(seed ^ 0xC13);
    let mut w = TraceWriter::create(&args.str("out", "c13.ndjson"));
    let mut histories = 0;
    let emit_history = |w: &mut TraceWriter, r: &mut Rng, site: Site, p: &P, first: NaiveDate, days: i64| {
        w.emit(json!({"ev": "h0", "site": site_json(&site), "p": p.json()}));
        let mut d = first;
        for _ in 0..days {
            if d.year() > 2399 {
                break;
            }
            let o = call(&site, d, p);
            w.emit(json!({"ev": "hday", "date": date_json(d), "r": res_json(&o), "out": o.out}));
            d = d.succ_opt().unwrap();
        }
        let _ = r;
    };
    let site45 = |r: &mut Rng| {
        // zones up to 3 h off the meridian: Isha may cross civil midnight (still the same evening's event)
        let mut s = rand_site(r, 450_000, 3);
        if r.chance(1, 2) {
            // make sure the Asr band 25..45 and the Fajr/Isha band <= 40 are well populated
            let l = r.range(250_000, 400_000);
            s.lat = if r.chance(1, 2) { l } else { -l };
        }
        s
    };
    if thorough {
        // one history over every consecutive date 1600..2399 per site
        for _ in 0..args.num("sites", 3) {
            let site = site45(&mut r);
            let p = plain(*pick(&mut r, &[1usize, 2, 3, 4, 5, 6]));
            emit_history(&mut w, &mut r, site, &p, ymd(1600, 1, 1), 292_194);
            histories += 1;
        }
    }
    let n_sites = args.num("windows", 40);
    for _ in 0..n_sites {
        let site = site45(&mut r);
        let p = plain(*pick(&mut r, &[1usize, 2, 3, 4, 5, 6]));
        let y = r.range(1600, 2398) as i32;
        emit_history(&mut w, &mut r, site, &p, ymd(y, 3, 10), 22);
        emit_history(&mut w, &mut r, site, &p, ymd(y, 2, 20), 14);
        emit_history(&mut w, &mut r, site, &p, ymd(y, 12, 20), 22);
        histories += 3;
    }
    // year ends and February/March of every century year (Julian-day formula structure)
    let mut c = 1700;
    while c <= 2300 {
        let site = site45(&mut r);
        let p = plain(*pick(&mut r, &[1usize, 2, 3, 4, 5, 6]));
        emit_history(&mut w, &mut r, site, &p, ymd(c - 1, 12, 22), 20);
        emit_history(&mut w, &mut r, site, &p, ymd(c, 2, 20), 14);
        histories += 2;
        c += 100;
    }
    for _ in 0..args.num("triples", 3000) {
        let site = site45(&mut r);
        let p = plain(*pick(&mut r, &[1usize, 2, 3, 4, 5, 6]));
        let d = rand_date(&mut r);
        let d = if d.year() >= 2399 && d.ordinal() > 360 { ymd(2399, 12, 20) } else { d };
        emit_history(&mut w, &mut r, site, &p, d, 3);
        histories += 1;
    }
    let session = session_flush(&mut w);
    let k = w.finish();
    println!("{}", json!({"session": session, "events": k, "histories": histories}));
}

// ------------------------------------------------------------------------------------------
// C20 zone / meridian shifts

pub fn gen_c20(args: &Args) {
    let seed = args.num("seed", 1) as u64;
    session_start(seed);
    let mut r = Rng::new(seed ^ 0xC20);
    let mut w = TraceWriter::create(&args.str("out", "c20.ndjson"));
    let dates = dates_for(args, &mut r);
    for date in dates {
        let site = rand_site(&mut r, 450_000, 3);
        let p = plain(r.range(0, 8) as usize);
        let a = call(&site, date, &p);
        if r.chance(1, 2) {
            let d = *pick(&mut r, &[3600i64, -3600, 1800, -1800, 10800, -10800, 45, -17, 1836, -3564, 900]);
            let mut site = site;
            if r.chance(1, 3) {
                site.gmt = (site.gmt + r.range(-1700, 1700)).clamp(-43200, 43200);
            }
            let a = call(&site, date, &p);
            let mut sb = site;
            sb.gmt += d;
            if sb.gmt.abs() > 12 * 3600 {
                continue;
            }
            let b = call(&sb, date, &p);
            if a.ok() && b.ok() {
                w.emit(json!({"ev": "c20", "kind": "gmt", "d": d, "site": site_json(&site), "siteb": site_json(&sb),
                    "date": date_json(date), "p": p.json(), "a": res_json(&a), "b": res_json(&b)}));
            }
        } else {
            let sign = if r.chance(1, 2) { 1 } else { -1 };
            let mut sb = site;
            sb.lon += sign * 150_000;
            sb.gmt += sign * 3600;
            if sb.gmt.abs() > 12 * 3600 || sb.lon.abs() > 1_800_000 {
                continue;
            }
            let b = call(&sb, date, &p);
            if a.ok() && b.ok() {
                w.emit(json!({"ev": "c20", "kind": "lon", "d": sign * 3600, "site": site_json(&site), "siteb": site_json(&sb),
                    "date": date_json(date), "p": p.json(), "a": res_json(&a), "b": res_json(&b)}));
            }
        }
    }
    // fine zone scan: the zone offset swept in 1-second steps over +-2.5 h around the natural zone on dates where the
    // astronomy has structure (equinoxes, solstices, the RA-wrap days, year ends) and a few random ones. Every
    // consecutive pair is a "gmt + 1 s" experiment; only the pairs that deviate most are recorded (a search
    // heuristic - TLC judges the recorded pairs like any other)
    for i in 0..args.num("scans", 14) {
        let y = r.range(1600, 2399) as i32;
        let date = match i % 7 {
            0 => ymd(y, 3, r.range(19, 22) as u32),
            1 => ymd(y, 9, r.range(21, 24) as u32),
            2 => ymd(y, 6, 21),
            3 => ymd(y, 12, 21),
            4 => ymd(y, 12, 31),
            _ => rand_date(&mut r),
        };
        let lon = r.range(-1_400_000, 1_400_000);
        let base = Site { dlat: 0, lat: r.range(-450_000, 450_000), lon, el: 0, gmt: natural_gmt(lon) };
        let p = plain(r.range(1, 6) as usize);
        let (g0, g1) = ((base.gmt - 9000).max(-43200), (base.gmt + 9000).min(43200));
        let mut prev: Option<(i64, Out)> = None;
        let mut worst: Vec<(i64, i64, Out, Out)> = Vec::new(); // (deviation, gmt of a, a, b)
        let mut g = g0;
        while g <= g1 {
            let s = Site { gmt: g, ..base };
            let o = raw_call(&s, date, &p);
            if let Some((pg, po)) = &prev {
                if po.ok() && o.ok() {
                    let mut dev = 0i64;
                    for k in 0..7 {
                        if (po.t[k] >= 0) != (o.t[k] >= 0) {
                            dev = dev.max(100_000);
                        } else if po.t[k] >= 600 && po.t[k] <= 85_000 && o.t[k] >= 600 && o.t[k] <= 85_000 {
                            dev = dev.max((o.t[k] - (po.t[k] + (g - pg))).abs());
                        }
                    }
                    if worst.len() < 3 || dev > worst.last().unwrap().0 {
                        worst.push((dev, *pg, po.clone(), o.clone()));
                        worst.sort_by(|a, b| b.0.cmp(&a.0));
                        worst.truncate(3);
                    }
                }
            }
            prev = Some((g, o));
            g += 1;
        }
        for (_, pg, a, b) in worst {
            let sa = Site { gmt: pg, ..base };
            let sb = Site { gmt: pg + 1, ..base };
            w.emit(json!({"ev": "c20", "kind": "gmt", "d": 1, "site": site_json(&sa), "siteb": site_json(&sb),
                "date": date_json(date), "p": p.json(), "a": res_json(&a), "b": res_json(&b), "scan": true}));
        }
    }
    // aimed scans: zone offsets chosen so that local midnight falls on the instant the Sun's longitude crosses a
    // quadrant boundary (0, 90, 180, 270 degrees - equinoxes and solstices), +-30 min in 1-second steps. The instant
    // is only AIMED with a low-precision formula of the harness' own (good to a few minutes); TLC judges the pairs.
    for i in 0..args.num("aimed", 8) {
        let y = r.range(1600, 2399) as i32;
        let target = [0.0f64, 180.0, 90.0, 270.0][(i % 4) as usize];
        let approx = [ymd(y, 3, 20), ymd(y, 9, 22), ymd(y, 6, 21), ymd(y, 12, 21)][(i % 4) as usize];
        // bisection for the crossing within +-3 days of the approximate date (days since J2000.0)
        let sun_lon = |d: f64| -> f64 {
            let t = d / 36525.0;
            let l0 = 280.46646 + 0.98564736 * d + 0.0003032 * t * t;
            let m = (357.52911 + 0.98560028 * d - 0.0001537 * t * t).to_radians();
            let c = (1.914602 - 0.004817 * t) * m.sin() + (0.019993 - 0.000101 * t) * (2.0 * m).sin() + 0.000289 * (3.0 * m).sin();
            let om = (125.04 - 0.05295376 * d).to_radians();
            (l0 + c - 0.00569 - 0.00478 * om.sin()).rem_euclid(360.0)
        };
        let d0 = dn_of(approx) as f64 - 0.5;
        let diff = |d: f64| ((sun_lon(d) - target + 540.0).rem_euclid(360.0)) - 180.0;
        let (mut lo, mut hi) = (d0 - 3.0, d0 + 3.0);
        for _ in 0..50 {
            let mid = (lo + hi) / 2.0;
            if diff(mid) < 0.0 { lo = mid } else { hi = mid }
        }
        let cross = (lo + hi) / 2.0 + 0.5;            // days since 2000-01-01 0 h UT
        let day = cross.floor() as i64;
        let ut_s = ((cross - cross.floor()) * 86400.0) as i64;   // UT seconds of the crossing
        // local midnight of civil date D at zone g is UT = D 0h - g: choose g = -ut_s (folded into [-12 h, 12 h])
        let (date, g) = if ut_s <= 43200 { (date_of_dn(day), -ut_s) } else { (date_of_dn(day + 1), 86400 - ut_s) };
        let lon = (g as f64 / 240.0 * 1e4) as i64;   // the meridian of that zone
        let base = Site { dlat: 0, lat: r.range(-450_000, 450_000), lon: lon.clamp(-1_790_000, 1_790_000), el: 0, gmt: g };
        let p = plain(r.range(1, 6) as usize);
        for dd in [-1i64, 0, 1] {
            let date = date + chrono::Duration::days(dd);
            let mut prev: Option<(i64, Out)> = None;
            let mut worst: Vec<(i64, i64, Out, Out)> = Vec::new();
            let mut gg = (g - 1800).max(-43200);
            while gg <= (g + 1800).min(43200) {
                let s = Site { gmt: gg, ..base };
                let o = raw_call(&s, date, &p);
                if let Some((pg, po)) = &prev {
                    if po.ok() && o.ok() {
                        let mut dev = 0i64;
                        for k in 0..7 {
                            if (po.t[k] >= 0) != (o.t[k] >= 0) {
                                dev = dev.max(100_000);
                            } else if po.t[k] >= 600 && po.t[k] <= 85_000 && o.t[k] >= 600 && o.t[k] <= 85_000 {
                                dev = dev.max((o.t[k] - (po.t[k] + (gg - pg))).abs());
                            }
                        }
                        if worst.len() < 2 || dev > worst.last().unwrap().0 {
                            worst.push((dev, *pg, po.clone(), o.clone()));
                            worst.sort_by(|a, b| b.0.cmp(&a.0));
                            worst.truncate(2);
                        }
                    }
                }
                prev = Some((gg, o));
                gg += 1;
            }
            for (_, pg, a, b) in worst {
                let sa = Site { gmt: pg, ..base };
                let sb = Site { gmt: pg + 1, ..base };
                w.emit(json!({"ev": "c20", "kind": "gmt", "d": 1, "site": site_json(&sa), "siteb": site_json(&sb),
                    "date": date_json(date), "p": p.json(), "a": res_json(&a), "b": res_json(&b), "scan": "aimed"}));
            }
        }
    }
    // zone offsets on either side of 0 (sites near Greenwich) on the dates where the calendar formula has structure
    let mut c = 1600;
    while c <= 2300 {
        for (m, d) in [(3u32, 1u32), (1, 1), (2, 28), (12, 31)] {
            for y in [c, c + 1] {
                let date = ymd(y, m, d);
                for k in 0..4 {
                    let _ = k;
                    let lon = r.range(-120_000, 120_000);
                    let ga = *pick(&mut r, &[-3600i64, -1800, 0, -900]);
                    let dd = *pick(&mut r, &[3600i64, 1800, 2700]);
                    let site = Site { dlat: 0, lat: r.range(-450_000, 450_000), lon, el: 0, gmt: ga };
                    let mut sb = site;
                    sb.gmt = ga + dd;
                    let p = plain(r.range(1, 8) as usize);
                    let a = call(&site, date, &p);
                    let b = call(&sb, date, &p);
                    if a.ok() && b.ok() {
                        w.emit(json!({"ev": "c20", "kind": "gmt", "d": dd, "site": site_json(&site), "siteb": site_json(&sb),
                            "date": date_json(date), "p": p.json(), "a": res_json(&a), "b": res_json(&b)}));
                    }
                }
            }
        }
        c += 100;
    }
    let session = session_flush(&mut w);
    let k = w.finish();
    println!("{}", json!({"session": session, "events": k}));
}
