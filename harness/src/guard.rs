//! Watchdog for calls that may hang: run on a helper thread, wait with a time-out.
//! A hung helper thread is abandoned (the process exits at the end anyway).

use std::panic::{catch_unwind, AssertUnwindSafe};
use std::sync::mpsc::channel;
use std::time::Duration;

pub enum Guarded<T> {
    Ret(T),
    Panic(String),
    Hang,
}

pub fn guarded<T: Send + 'static>(
    timeout: Duration,
    f: impl FnOnce() -> T + Send + 'static,
) -> Guarded<T> {
    let (tx, rx) = channel();
    std::thread::Builder::new()
        .stack_size(16 << 20)
        .spawn(move || {
            let r = catch_unwind(AssertUnwindSafe(f));
            let _ = tx.send(r);
        })
        .unwrap();
    match rx.recv_timeout(timeout) {
        Ok(Ok(v)) => Guarded::Ret(v),
        Ok(Err(e)) => {
            let msg = if let Some(s) = e.downcast_ref::<String>() {
                s.clone()
            } else if let Some(s) = e.downcast_ref::<&str>() {
                s.to_string()
            } else {
                "panic".to_string()
            };
            Guarded::Panic(msg)
        }
        Err(_) => Guarded::Hang,
    }
}
