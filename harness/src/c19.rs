//! C19: scenarios of Cli.tla concretised and run against the built binary.

use std::collections::BTreeMap;
use std::path::Path;
use std::process::Command;

use chrono::{NaiveDate, Datelike};
use islamic_prayer_times::*;
use serde_json::{json, Value};

use crate::common::*;

type Table = BTreeMap<NaiveDate, BTreeMap<Prayer, Result<PrayerTime, ()>>>;

struct Num {
    text: String,
    v: i64, // value * 1e4 (0 for malformed)
}

fn num(r: &mut Rng, cls: &str, lo: f64, hi: f64, grid: f64) -> Num {
    match cls {
        "ok" => {
            let v = match r.range(0, 5) {
                0 => lo,
                1 => hi,
                _ => {
                    let steps = ((hi - lo) / grid) as i64;
                    lo + r.range(0, steps) as f64 * grid
                }
            };
            let v = (v * 1e4).round() / 1e4;
            Num { text: format!("{}", v), v: (v * 1e4).round() as i64 }
        }
        "oor" => {
            let v = *pick(r, &[hi + 0.0001, lo - 0.0001, hi + 1., lo - 1., hi * 10. + 5., lo * 10. - 5.]);
            let v = (v * 1e4).round() / 1e4;
            Num { text: format!("{}", v), v: (v * 1e4).round() as i64 }
        }
        _ => Num { text: pick(r, &["abc", "", "12,5", "1e", "--3", "north", "nan", "NaN", "inf", "-inf", "infinity", "-NaN", "39° 01′ 05.4″ N", "1234567890123456é", "forty-two degrees and a half north ✓✓✓"]).to_string(), v: 0 },
    }
}

fn pick<'a, T>(r: &mut Rng, xs: &'a [T]) -> &'a T {
    &xs[(r.next() % xs.len() as u64) as usize]
}

fn listing_ok(stdout: &str, table: &Table) -> bool {
    let lines: Vec<&str> = stdout.lines().collect();
    let mut i = 0;
    for (date, day) in table.iter() {
        // blank line, header, seven entries
        while i < lines.len() && lines[i].trim().is_empty() {
            i += 1;
        }
        if i >= lines.len() {
            return false;
        }
        let h = format!("{}", HijriDate::from(*date));
        if !(lines[i].contains(&h) && lines[i].contains(&date.year().to_string()) && lines[i].contains(&date.format("%B").to_string())) {
            return false;
        }
        i += 1;
        for (p, v) in day.iter() {
            if i >= lines.len() {
                return false;
            }
            let want = match v {
                Ok(t) => format!("{}", t),
                Err(()) => "Invalid".to_string(),
            };
            let ln = lines[i].trim();
            if !(ln.starts_with(&format!("{}:", p)) && ln.ends_with(&want)) {
                return false;
            }
            i += 1;
        }
    }
    lines[i..].iter().all(|l| l.trim().is_empty())
}

pub fn gen(args: &Args) {
    let seed = args.num("seed", 1) as u64;
    let mut r = Rng::new(seed ^ 0xC19);
    let bin = args.str("bin", "");
    let dir = args.str("dir", "");
    let scen: Vec<Vec<Value>> = serde_json::from_str(&std::fs::read_to_string(args.str("scen", "scen.json")).unwrap()).unwrap();
    let mut w = TraceWriter::create(&args.str("out", "c19.ndjson"));
    std::fs::create_dir_all(&dir).unwrap();
    let mut n_rt = 0;
    let (mut anchor_o, mut anchor_list) = (0usize, 0usize);
    for (idx, s) in scen.iter().enumerate() {
        let g = |i: usize| s[i].as_str().unwrap_or("").to_string();
        let (lat_c, lon_c, gmt_c, elev_c, dates_c, input_c) = (g(0), g(1), g(2), g(3), g(4), g(5));
        let (has_o, has_p) = (s[6].as_bool().unwrap(), s[7].as_bool().unwrap());
        let pred = g(8);
        let pre = s.get(9).and_then(|v| v.as_bool()).unwrap_or(false);
        let lat = num(&mut r, &lat_c, -90., 90., 0.0001);
        let lon = num(&mut r, &lon_c, -180., 180., 0.0001);
        // zone offsets are not confined to the half-hour grid (5.75, 3.2, local mean time ...)
    let gmt_grid = *pick(&mut r, &[0.5, 0.5, 0.25, 0.0001]);
    let gmt = num(&mut r, &gmt_c, -12., 12., gmt_grid);
        let elev = if elev_c == "absent" { Num { text: String::new(), v: 0 } } else { num(&mut r, &elev_c, -420., 8848., 1.) };
        let meth = r.range(0, 8) as usize;
        let mut start = date_of_dn(r.range(dn_of(ymd(1600, 1, 1)), dn_of(ymd(2398, 1, 1))));
        // month / year / leap-day structure incl. the 400-year rule: every anchor is used by the first accepted
        // scenarios of each output mode (round-robin), and at random afterwards
        let anchors = [ymd(2000, 2, 27), ymd(1600, 2, 26), ymd(2024, 2, 27), ymd(1900, 2, 26), ymd(2100, 2, 27),
            ymd(1999, 12, 30), ymd(2000, 12, 29), ymd(2023, 1, 30), ymd(2000, 2, 29), ymd(2396, 2, 28)];
        let mut anchored = false;
        if pred == "done" && input_c == "none" && dates_c == "ok" {
            let slot = if has_o { &mut anchor_o } else { &mut anchor_list };
            if *slot < anchors.len() {
                start = anchors[*slot];
                *slot += 1;
                anchored = true;
            }
        }
        if !anchored && r.chance(1, 5) {
            start = *pick(&mut r, &anchors);
        }
        let span = if anchored { r.range(3, 12) } else { match r.range(0, 9) {
            0 => 1,
            1 => r.range(300, 400),
            _ => r.range(1, 45),
        } };
        let (sd, ed) = match dates_c.as_str() {
            "ok" => (start.to_string(), (start + chrono::Duration::days(span - 1)).to_string()),
            "reversed" => (start.to_string(), (start - chrono::Duration::days(span)).to_string()),
            _ => (pick(&mut r, &["2023-02-30", "2023/01/01", "yesterday", "2023-13-01"]).to_string(), start.to_string()),
        };
        let wd = format!("{}/s{}", dir, idx);
        let _ = std::fs::remove_dir_all(&wd);
        std::fs::create_dir_all(&wd).unwrap();
        let out_path = format!("{}/out.json", wd);
        let par_path = format!("{}/params.json", wd);
        let in_path = format!("{}/input.json", wd);
        let mut argv: Vec<String> = vec![
            format!("--latitude={}", lat.text),
            format!("--longitude={}", lon.text),
            format!("--gmt={}", gmt.text),
            format!("--method={}", METHOD_NAMES[meth]),
            format!("--start-date={}", sd),
            format!("--end-date={}", ed),
        ];
        if elev_c != "absent" {
            argv.push(format!("--elevation={}", elev.text));
        }
        if has_o {
            argv.push(format!("--output-file-path={}", out_path));
        }
        if has_p {
            argv.push(format!("--params-file-path={}", par_path));
        }
        // the configuration the tool should end up with
        let mut expect: Option<(Params, Location, DateRange)> = None;
        if input_c != "none" {
            // a parameter document of our own (custom numeric fields, so the file must really be honoured)
            let mut p = P::of_method(r.range(1, 8) as usize);
            p.rnd = r.range(0, 3) as usize;
            p.pol = r.range(0, 14) as usize;
            p.off[2] = r.range(-30, 30) * 60;
            let fsite = Site { dlat: 0, lat: r.range(-600_000, 600_000), lon: r.range(-1_800_000, 1_800_000), el: r.range(0, 2000), gmt: r.range(-24, 24) * 1800 };
            let fstart = date_of_dn(r.range(dn_of(ymd(1600, 1, 1)), dn_of(ymd(2398, 1, 1))));
            let fdr = DateRange::from(fstart..=(fstart + chrono::Duration::days(r.range(0, 40))));
            let doc = json!({"params": p.params(), "location": fsite.location(), "date_range": fdr});
            let mut text = serde_json::to_string(&doc).unwrap();
            match input_c.as_str() {
                "good" => expect = Some((p.params(), fsite.location(), fdr)),
                "corrupt" => text = text[..text.len() / 2].to_string(),
                "oorfile" => {
                    let v: Value = json!({"params": p.params(), "location": {"coords": {"latitude": 95.5, "longitude": 10.0, "elevation": 0.0}, "gmt": 1.0}, "date_range": fdr});
                    text = serde_json::to_string(&v).unwrap();
                }
                _ => {}
            }
            if input_c != "missing" {
                std::fs::write(&in_path, text).unwrap();
            }
            argv.push(format!("--input-file-path={}", in_path));
        } else if lat_c == "ok" && lon_c == "ok" && gmt_c == "ok" && (elev_c == "ok" || elev_c == "absent") && dates_c != "bad" {
            let site = Site { dlat: 0, lat: lat.v, lon: lon.v, el: 0, gmt: 0 };
            let _ = site;
            let coords = Coordinates::new(
                Latitude::try_from(lat.text.parse::<f64>().unwrap()).unwrap(),
                Longitude::try_from(lon.text.parse::<f64>().unwrap()).unwrap(),
                Elevation::try_from(if elev_c == "absent" { 0. } else { elev.text.parse::<f64>().unwrap() }).unwrap(),
            );
            let loc = Location { coords, gmt: Gmt::try_from(gmt.text.parse::<f64>().unwrap()).unwrap() };
            let dr = DateRange::from(sd.parse::<NaiveDate>().unwrap()..=ed.parse::<NaiveDate>().unwrap());
            expect = Some((Params::new(METHODS[meth]), loc, dr));
        }
        // pre-existing files at the -o / -p paths: written by an earlier, real run of the tool with a
        // longer range and longer coordinate literals (so they are longer than anything this run writes)
        let mut old_out: Vec<u8> = Vec::new();
        let mut old_par: Vec<u8> = Vec::new();
        if pre {
            let pstart = date_of_dn(r.range(dn_of(ymd(1700, 1, 1)), dn_of(ymd(2300, 1, 1))));
            let pargs = vec![
                "--latitude=-33.86785123".to_string(),
                "--longitude=151.20732456".to_string(),
                "--gmt=10".to_string(),
                "--elevation=19.25".to_string(),
                format!("--start-date={}", pstart),
                format!("--end-date={}", pstart + chrono::Duration::days(420)),
                format!("--output-file-path={}", out_path),
                format!("--params-file-path={}", par_path),
            ];
            let _ = Command::new(&bin).args(&pargs).current_dir(&wd).output_t();
            old_out = std::fs::read(&out_path).unwrap_or_default();
            old_par = std::fs::read(&par_path).unwrap_or_default();
        }
        let res = Command::new(&bin).args(&argv).current_dir(&wd).output_t();
        let (exit, stdout) = match res {
            Ok(o) => (o.status.code().unwrap_or(-9), String::from_utf8_lossy(&o.stdout).to_string()),
            Err(_) => (-8, String::new()),
        };
        let mut files: Vec<&str> = Vec::new();
        if Path::new(&out_path).exists() {
            files.push("out");
        }
        if Path::new(&par_path).exists() {
            files.push("params");
        }
        // does the output say what the library computes for the intended configuration?
        let mut eq_lib = false;
        let mut ndays = 0;
        if let Some((params, loc, dr)) = &expect {
            // the library's answer must not depend on what this process computed before: first the same dates at the
            // neighbouring half-hour zone offsets, then the configuration itself
            let g = f64::from(loc.gmt);
            for gg in [(g * 2.).floor() / 2., (g * 2.).ceil() / 2., (g * 2.).floor() / 2. - 0.5] {
                if let Ok(g2) = Gmt::try_from(gg) {
                    let l2 = Location { coords: loc.coords, gmt: g2 };
                    let _ = prayer_times_dt_rng(params, l2, dr);
                }
            }
            let table = prayer_times_dt_rng(params, *loc, dr);
            ndays = table.len();
            if has_o {
                if let Ok(text) = std::fs::read_to_string(&out_path) {
                    if let Ok(t) = serde_json::from_str::<Table>(&text) {
                        eq_lib = t == table;
                    }
                }
            } else {
                eq_lib = listing_ok(&stdout, &table);
            }
        }
        // state of the two paths afterwards: none | old (untouched) | fresh (exactly this run's data) | other
        let out_state = match std::fs::read(&out_path) {
            Err(_) => "none",
            Ok(b) if pre && b == old_out => "old",
            Ok(b) => {
                let ok = match (&expect, serde_json::from_slice::<Table>(&b)) {
                    (Some((params, loc, dr)), Ok(t)) => t == prayer_times_dt_rng(params, *loc, dr),
                    _ => false,
                };
                if ok { "fresh" } else { "other" }
            }
        };
        let params_state = match std::fs::read(&par_path) {
            Err(_) => "none",
            Ok(b) if pre && b == old_par => "old",
            Ok(b) => {
                // fresh = a well-formed document that, fed back with -i, reproduces this run's result
                let chk = format!("{}/chk.json", wd);
                let ok = serde_json::from_slice::<Value>(&b).is_ok()
                    && Command::new(&bin).args([format!("--input-file-path={}", par_path), format!("--output-file-path={}", chk)])
                        .current_dir(&wd).output_t().map(|o| o.status.success()).unwrap_or(false)
                    && match (&expect, std::fs::read(&chk).ok().and_then(|x| serde_json::from_slice::<Table>(&x).ok())) {
                        (Some((params, loc, dr)), Some(t)) => t == prayer_times_dt_rng(params, *loc, dr),
                        _ => false,
                    };
                if ok { "fresh" } else { "other" }
            }
        };
        w.emit(json!({"ev": "cli", "out_state": out_state, "params_state": params_state,
            "sc": {"lat": lat_c, "lon": lon_c, "gmt": gmt_c, "elev": elev_c, "dates": dates_c,
                "input": input_c, "o": has_o, "p": has_p, "pre": pre},
            "v": {"lat": lat.v, "lon": lon.v, "gmt": gmt.v, "elev": elev.v},
            "pred": pred, "ndays": ndays, "exit": exit, "files": files, "printed": !stdout.trim().is_empty(), "eq_lib": eq_lib,
            "argv": argv, "meth": meth}));

        // round trip: a parameter file written by an accepted run, fed back, reproduces the output byte for byte
        if exit == 0 && has_p && input_c == "none" && Path::new(&par_path).exists() {
            let o1 = format!("{}/rt1.json", wd);
            let o2 = format!("{}/rt2.json", wd);
            let mut a1 = argv.clone();
            a1.retain(|a| !a.starts_with("--output-file-path") && !a.starts_with("--params-file-path"));
            let par2 = format!("{}/params2.json", wd);
            a1.push(format!("--output-file-path={}", o1));
            a1.push(format!("--params-file-path={}", par2));
            let e1 = Command::new(&bin).args(&a1).current_dir(&wd).output_t().map(|o| o.status.code().unwrap_or(-9)).unwrap_or(-8);
            let a2 = vec![format!("--input-file-path={}", par2), format!("--output-file-path={}", o2)];
            let e2 = Command::new(&bin).args(&a2).current_dir(&wd).output_t().map(|o| o.status.code().unwrap_or(-9)).unwrap_or(-8);
            let same = match (std::fs::read(&o1), std::fs::read(&o2)) {
                (Ok(x), Ok(y)) => x == y && !x.is_empty(),
                _ => false,
            };
            // and the terminal listing of the two runs
            let l1 = Command::new(&bin).args(a1.iter().filter(|a| !a.starts_with("--output-file-path") && !a.starts_with("--params-file-path"))).current_dir(&wd).output_t();
            let l2 = Command::new(&bin).args(&a2[..1]).current_dir(&wd).output_t();
            let same_listing = match (l1, l2) {
                (Ok(x), Ok(y)) => x.stdout == y.stdout && x.status.success() && y.status.success(),
                _ => false,
            };
            n_rt += 1;
            w.emit(json!({"ev": "rt", "exit1": e1, "exit2": e2, "same": same, "same_listing": same_listing, "argv": a1}));
        }
        let _ = std::fs::remove_dir_all(&wd);
    }
    // dedicated -p / -i round trips: coordinates with all their decimals, high elevations, long ranges
    // (the default rounding shows a difference only on the rare minute boundary, so volume matters)
    let n_long = args.num("long_roundtrips", 150);
    for i in 0..n_long {
        let wd = format!("{}/rt{}", dir, i);
        let _ = std::fs::remove_dir_all(&wd);
        std::fs::create_dir_all(&wd).unwrap();
        let high = i % 6 == 0;
        let frac = |r: &mut Rng| (r.next() >> 11) as f64 / (1u64 << 53) as f64;
        let lat = if high { 50. + 12. * frac(&mut r) } else { -48. + 96. * frac(&mut r) };
        let lon = -180. + 360. * frac(&mut r);
        let gmt = (lon / 15.).round().clamp(-12., 12.);
        let el = if high { 8848. } else { (8848. * frac(&mut r) * 1000.).round() / 1000. };
        let start = date_of_dn(r.range(dn_of(ymd(1600, 1, 1)), dn_of(ymd(2397, 1, 1))));
        let span = if high { 200 } else { 400 };
        let (o1, o2, par) = (format!("{}/o1.json", wd), format!("{}/o2.json", wd), format!("{}/p.json", wd));
        let a1 = vec![
            format!("--latitude={}", lat), format!("--longitude={}", lon), format!("--gmt={}", gmt), format!("--elevation={}", el),
            format!("--method={}", METHOD_NAMES[r.range(1, 8) as usize]),
            format!("--start-date={}", start), format!("--end-date={}", start + chrono::Duration::days(span - 1)),
            format!("--output-file-path={}", o1), format!("--params-file-path={}", par),
        ];
        let e1 = Command::new(&bin).args(&a1).current_dir(&wd).output_t().map(|o| o.status.code().unwrap_or(-9)).unwrap_or(-8);
        let a2 = vec![format!("--input-file-path={}", par), format!("--output-file-path={}", o2)];
        let e2 = Command::new(&bin).args(&a2).current_dir(&wd).output_t().map(|o| o.status.code().unwrap_or(-9)).unwrap_or(-8);
        let same = match (std::fs::read(&o1), std::fs::read(&o2)) {
            (Ok(x), Ok(y)) => x == y && !x.is_empty(),
            _ => false,
        };
        n_rt += 1;
        w.emit(json!({"ev": "rt", "exit1": e1, "exit2": e2, "same": same, "same_listing": true, "argv": a1, "long": true}));
        let _ = std::fs::remove_dir_all(&wd);
    }
    // the default date is the machine's local date: run without dates in two far-apart zones
    for (tz, off_h) in [("XXX-14", 14i64), ("XXX12", -12i64)] {
        let wd = format!("{}/today{}", dir, off_h);
        let _ = std::fs::remove_dir_all(&wd);
        std::fs::create_dir_all(&wd).unwrap();
        let out = format!("{}/o.json", wd);
        let before = (chrono::Utc::now() + chrono::Duration::hours(off_h)).date_naive();
        let res = Command::new(&bin).args(["--latitude=10", "--longitude=20", "--gmt=1", &format!("--output-file-path={}", out)])
            .env("TZ", tz).current_dir(&wd).output_t();
        let after = (chrono::Utc::now() + chrono::Duration::hours(off_h)).date_naive();
        let exit = res.map(|o| o.status.code().unwrap_or(-9)).unwrap_or(-8);
        let keys: Vec<i64> = std::fs::read_to_string(&out).ok().and_then(|t| serde_json::from_str::<Table>(&t).ok())
            .map(|t| t.keys().map(|d| dn_of(*d)).collect()).unwrap_or_default();
        w.emit(json!({"ev": "today", "tz": tz, "exit": exit, "keys": keys, "before": dn_of(before), "after": dn_of(after)}));
        let _ = std::fs::remove_dir_all(&wd);
    }
    let k = w.finish();
    println!("{}", json!({"events": k, "roundtrips": n_rt}));
}
