#![allow(dead_code)]
mod c14;
mod c15;
mod c16;
mod c17;
mod c18;
mod c19;
mod common;
mod guard;
mod pd;
mod solar;
mod surface;

use common::Args;

fn main() {
    let argv: Vec<String> = std::env::args().collect();
    if argv.len() < 2 {
        eprintln!("usage: ipt-harness <subcommand> [--key value]...");
        std::process::exit(2);
    }
    let args = Args(argv[2..].to_vec());
    common::silence_panics();
    match argv[1].as_str() {
        "c14" => c14::gen(&args),
        "c15" => c15::gen(&args),
        "c15s" => c15::replay(&args),
        "c16" => c16::gen(&args),
        "c17" => c17::gen(&args),
        "c18" => c18::gen(&args),
        "c19" => c19::gen(&args),
        "surface" => surface::gen(&args),
        "pipe" => pd::gen_pipe(&args),
        "c01" => solar::gen_c01(&args),
        "c02" => solar::gen_c02(&args),
        "c03" => solar::gen_c03(&args),
        "c04" => solar::gen_c04(&args),
        "c06" => solar::gen_c06(&args),
        "c13" => solar::gen_c13(&args),
        "c20" => solar::gen_c20(&args),
        "c05" => pd::gen_c05(&args),
        "c07" => pd::gen_c07(&args),
        "c08" => pd::gen_c08(&args),
        "c09" => pd::gen_c09(&args),
        "c10" => pd::gen_c10(&args),
        "c11" => pd::gen_c11(&args),
        "c12" => pd::gen_c12(&args),
        other => {
            eprintln!("unknown subcommand {other}");
            std::process::exit(2);
        }
    }
}
