//! C18: validated quantities. The cells of Bounded.tla's decision table (type x value class x
//! route) are concretised with exact bit patterns and run through the real constructors;
//! seeded random bit patterns and strings are added. The harness logs bits and outcomes; TLC
//! classifies the bits against the documented bounds and judges.

use std::panic::{catch_unwind, AssertUnwindSafe};

use islamic_prayer_times::*;
use serde_json::{json, Value};

use crate::common::*;

const RANGES: [(f64, f64); 6] = [
    (-12., 12.),
    (-90., 90.),
    (-180., 180.),
    (-420., 8848.),
    (100., 1050.),
    (-90., 57.),
];

fn key(v: f64) -> (i64, [i64; 3]) {
    let b = v.to_bits();
    let mag = b & ((1u64 << 63) - 1);
    (
        (b >> 63) as i64,
        [
            (mag >> 42) as i64,
            ((mag >> 21) & 0x1F_FFFF) as i64,
            (mag & 0x1F_FFFF) as i64,
        ],
    )
}

fn next_up(v: f64) -> f64 {
    if v == 0. {
        return f64::from_bits(1);
    }
    let b = v.to_bits();
    f64::from_bits(if v > 0. { b + 1 } else { b - 1 })
}

fn next_down(v: f64) -> f64 {
    -next_up(-v)
}

/// outcome of one construction: Some(read-back value) = accepted
type Res = Result<Option<f64>, ()>; // Err(()) = panic

fn guard(f: impl FnOnce() -> Option<f64>) -> Res {
    catch_unwind(AssertUnwindSafe(f)).map_err(|_| ())
}

fn num_route(ty: usize, v: f64) -> Res {
    guard(|| match ty {
        1 => Gmt::try_from(v).ok().map(f64::from),
        2 => Latitude::try_from(v).ok().map(f64::from),
        3 => Longitude::try_from(v).ok().map(f64::from),
        4 => Elevation::try_from(v).ok().map(f64::from),
        5 => Pressure::try_from(v).ok().map(f64::from),
        _ => Temperature::try_from(v).ok().map(f64::from),
    })
}

fn txt_route(ty: usize, s: &str) -> Res {
    guard(|| match ty {
        1 => s.parse::<Gmt>().ok().map(f64::from),
        2 => s.parse::<Latitude>().ok().map(f64::from),
        3 => s.parse::<Longitude>().ok().map(f64::from),
        4 => s.parse::<Elevation>().ok().map(f64::from),
        _ => unreachable!(),
    })
}

fn json_route(ty: usize, s: &str) -> Res {
    guard(|| match ty {
        1 => serde_json::from_str::<Gmt>(s).ok().map(f64::from),
        2 => serde_json::from_str::<Latitude>(s).ok().map(f64::from),
        3 => serde_json::from_str::<Longitude>(s).ok().map(f64::from),
        4 => serde_json::from_str::<Elevation>(s).ok().map(f64::from),
        5 => serde_json::from_str::<Pressure>(s).ok().map(f64::from),
        _ => serde_json::from_str::<Temperature>(s).ok().map(f64::from),
    })
}

/// composite documents embedding the literal `s` for the field of type `ty`; `variant` picks
/// between the documents that embed that type
fn doc_route(ty: usize, s: &str, variant: usize) -> Res {
    let lit = |t: usize, default: &str| if t == ty { s.to_string() } else { default.to_string() };
    guard(|| {
        if ty <= 4 {
            if ty == 2 && variant % 2 == 1 {
                // the parameter document: a nearest-latitude policy embeds a Latitude
                let mut v: Value = serde_json::to_value(Params::new(Method::Mwl)).unwrap();
                let name = ["NearestLatitudeAllPrayersAlways", "NearestLatitudeFajrIshaAlways",
                    "NearestLatitudeFajrIshaInvalid"][(variant / 2) % 3];
                let doc = {
                    v["extreme_latitude_method"] = json!({name: "@@"});
                    serde_json::to_string(&v).unwrap().replace("\"@@\"", s)
                };
                let p: Params = serde_json::from_str(&doc).ok()?;
                match p.extreme_latitude_method {
                    ExtremeLatitudeMethod::NearestLatitudeAllPrayersAlways(l)
                    | ExtremeLatitudeMethod::NearestLatitudeFajrIshaAlways(l)
                    | ExtremeLatitudeMethod::NearestLatitudeFajrIshaInvalid(l) => Some(f64::from(l)),
                    _ => None,
                }
            } else {
                let doc = format!(
                    "{{\"coords\":{{\"latitude\":{},\"longitude\":{},\"elevation\":{}}},\"gmt\":{}}}",
                    lit(2, "10.5"), lit(3, "-20.25"), lit(4, "100"), lit(1, "3")
                );
                let l: Location = serde_json::from_str(&doc).ok()?;
                Some(match ty {
                    1 => f64::from(l.gmt),
                    2 => f64::from(l.coords.latitude),
                    3 => f64::from(l.coords.longitude),
                    _ => f64::from(l.coords.elevation),
                })
            }
        } else {
            let doc = format!(
                "{{\"pressure\":{},\"temperature\":{}}}",
                lit(5, "1010"), lit(6, "14")
            );
            let w: Weather = serde_json::from_str(&doc).ok()?;
            Some(if ty == 5 { f64::from(w.pressure) } else { f64::from(w.temperature) })
        }
    })
}

fn values_of(ty: usize, cls: &str, r: &mut Rng) -> Vec<f64> {
    let (lo, hi) = RANGES[ty - 1];
    match cls {
        "nan" => vec![f64::NAN, -f64::NAN, f64::from_bits(0x7FF0_0000_0000_0001), f64::from_bits(0xFFF8_0000_0000_1234)],
        "pinf" => vec![f64::INFINITY],
        "ninf" => vec![f64::NEG_INFINITY],
        "below_far" => vec![lo - 0.1, lo - 1., lo - 1e-9 * lo.abs(), -1e300, f64::MIN, lo * 2. - 1000., lo - 0.5],
        "below_ulp" => vec![next_down(lo), next_down(next_down(lo))],
        "lo" => vec![lo],
        "hi" => vec![hi],
        "above_ulp" => vec![next_up(hi), next_up(next_up(hi))],
        "above_far" => vec![hi + 0.1, hi + 1., hi + 1e-9 * hi.abs(), 1e300, f64::MAX, hi * 2. + 1000., hi + 0.5],
        "zero" => vec![0.0, -0.0],
        "inside" => {
            let mut v = vec![next_up(lo), next_down(hi), (lo + hi) / 2., lo + 0.1, hi - 0.1];
            if lo < 0. && hi > 0. {
                v.extend([5e-324, -5e-324, f64::MIN_POSITIVE, -f64::MIN_POSITIVE, 1e-310, 1.0, -1.0]);
            }
            for _ in 0..6 {
                let f = (r.next() >> 11) as f64 / (1u64 << 53) as f64;
                let x = lo + f * (hi - lo);
                if x > lo && x < hi {
                    v.push(x);
                }
            }
            v
        }
        _ => vec![],
    }
}

fn garbage(route: &str) -> Vec<&'static str> {
    if route == "txt" {
        vec!["", "abc", "1,5", "--1", "1e", "0x10", "1_0", "1.2.3", "12N", "e5", ".", "-", "+-1", "１２", "1 2", "NaN(0)", "1e+",
             // long and non-ASCII garbage (error paths that format, truncate or echo the rejected text)
             "39° 01′ 05.4″ N", "١٢٣٤٥٦٧٨٩٠١٢٣٤٥٦٧٨٩٠", "forty-two degrees and a half north of the equator ✓✓✓",
             "aaaaaaaaaaaaaaaaaaaaaaaaaaaaaaaaaaaaaaaaaaaaaaaaaaaaaaaaaaaaaaaaaaaaaaaa", "12.5°", "1234567890123456é", "123456789012345é7",
             "\u{0}", "12\u{0}", "\n", "１２．５"]
    } else {
        vec!["\"12\"", "true", "[1]", "{}", "null", "1e", "", "01", "+1", ".5", "5.", "0x10", "\"NaN\"", "NaN", "Infinity", "-Infinity", "1 2", "{\"v\":1}"]
    }
}

fn emit(w: &mut TraceWriter, ty: usize, cls: &str, route: &str, pred: &str, src: &str, v: Option<f64>, res: Res) {
    // The number a JSON document denotes is what the JSON parser delivers for the literal
    // (serde_json without `float_roundtrip` may be 1 ulp off the decimal text); when that differs
    // from the intended bits the event is about the delivered number and loses its class label.
    let ocls = cls;
    let (mut cls, mut pred, mut v) = (cls, pred, v);
    if (route == "json" || route == "doc") && v.is_some() {
        if let Ok(pv) = serde_json::from_str::<f64>(src) {
            if pv.to_bits() != v.unwrap().to_bits() {
                v = Some(pv);
                cls = "rand";
                pred = "any";
            }
        }
    }
    let (neg, mag) = key(v.unwrap_or(0.));
    let (out, rb) = match res {
        Ok(Some(x)) => ("accept", key(x)),
        Ok(None) => ("reject", (0, [0, 0, 0])),
        Err(()) => ("panic", (0, [0, 0, 0])),
    };
    w.emit(json!({"ev": "bnd", "ty": ty, "cls": cls, "ocls": ocls, "route": route, "pred": pred, "src": src,
        "neg": neg, "mag": mag, "out": out, "rbneg": rb.0, "rbmag": rb.1}));
}

fn texts(v: f64, json_form: bool) -> Vec<String> {
    let mut t = Vec::new();
    if v.is_nan() {
        if !json_form {
            t.push("NaN".to_string());
            t.push("nan".to_string());
        } else {
            t.push(serde_json::to_string(&v).unwrap()); // "null"
        }
        return t;
    }
    if v.is_infinite() {
        if !json_form {
            t.push(format!("{}", v));
            t.push(if v > 0. { "infinity".into() } else { "-infinity".into() });
            t.push(if v > 0. { "1e999".into() } else { "-1e999".into() });
        } else {
            t.push(serde_json::to_string(&v).unwrap()); // "null"
            t.push(if v > 0. { "1e999".into() } else { "-1e999".into() });
        }
        return t;
    }
    t.push(format!("{:?}", v));
    t.push(format!("{:e}", v));
    if json_form {
        t.push(serde_json::to_string(&v).unwrap());
    } else {
        t.push(format!("+{:?}", v.abs()).replace("+", if v.is_sign_negative() { "-" } else { "+" }));
    }
    if v.fract() == 0. && v.abs() < 1e15 && !(v == 0. && v.is_sign_negative()) {
        t.push(format!("{}", v as i64));
    }
    t.sort();
    t.dedup();
    t
}

pub fn gen(args: &Args) {
    let seed = args.num("seed", 1) as u64;
    let thorough = args.str("tier", "quick") == "thorough";
    let mut r = Rng::new(seed ^ 0xC18);
    let cells: Vec<(usize, String, String, String)> =
        serde_json::from_str::<Vec<(usize, String, String, String)>>(
            &std::fs::read_to_string(args.str("cells", "cells.json")).unwrap(),
        )
        .unwrap();
    let mut w = TraceWriter::create(&args.str("out", "c18.ndjson"));

    // spec -> impl: every cell of the decision table
    for (ty, cls, route, pred) in cells.iter() {
        let ty = *ty;
        if cls == "garbage" {
            for (i, g) in garbage(if route == "txt" { "txt" } else { "json" }).iter().enumerate() {
                let res = match route.as_str() {
                    "txt" => txt_route(ty, g),
                    "json" => json_route(ty, g),
                    _ => doc_route(ty, if g.is_empty() { " " } else { g }, i),
                };
                emit(&mut w, ty, cls, route, pred, g, None, res);
            }
            continue;
        }
        for (i, v) in values_of(ty, cls, &mut r).into_iter().enumerate() {
            match route.as_str() {
                "num" => emit(&mut w, ty, cls, route, pred, "", Some(v), num_route(ty, v)),
                "txt" => {
                    for s in texts(v, false) {
                        let res = txt_route(ty, &s);
                        emit(&mut w, ty, cls, route, pred, &s, Some(v), res);
                    }
                }
                "json" => {
                    for s in texts(v, true) {
                        let res = json_route(ty, &s);
                        emit(&mut w, ty, cls, route, pred, &s, Some(v), res);
                    }
                }
                _ => {
                    for (j, s) in texts(v, true).into_iter().enumerate() {
                        let res = doc_route(ty, &s, i + j);
                        emit(&mut w, ty, cls, route, pred, &s, Some(v), res);
                    }
                }
            }
        }
    }

    // whitespace-padded numeric text: may be rejected as malformed, or accepted as the number
    for ty in 1..=4usize {
        let (lo, hi) = RANGES[ty - 1];
        for v in [lo, hi, 0.5, hi + 1., lo - 1.] {
            for s in [format!(" {:?}", v), format!("{:?} ", v), format!("\t{:?}\n", v)] {
                let res = txt_route(ty, &s);
                emit(&mut w, ty, "ws", "txt", "either", &s, Some(v), res);
            }
        }
    }

    // sequences: the same bit pattern offered to one type after another (validation must not remember
    // what a previous call - of this or another type - accepted)
    for v in [500.0f64, 120.0, -100.0, 5000.0, 57.0, 90.0, -90.0, 12.0, -12.0, 100.0, 1050.0, 180.0, -180.0, 8848.0, -420.0, 0.0, 13.0, 91.0, 60.5] {
        for first in 1..=6usize {
            for second in 1..=6usize {
                if first == second {
                    continue;
                }
                for route in ["num", "json", "txt", "doc"] {
                    if route == "txt" && (first > 4 || second > 4) {
                        continue;
                    }
                    let s = format!("{:?}", v);
                    let run = |ty: usize| match route {
                        "num" => num_route(ty, v),
                        "json" => json_route(ty, &s),
                        "txt" => txt_route(ty, &s),
                        _ => doc_route(ty, &s, 0),
                    };
                    let r1 = run(first);
                    let r2 = run(second);
                    emit(&mut w, first, "rand", route, "any", &s, Some(v), r1);
                    emit(&mut w, second, "rand", route, "any", &s, Some(v), r2);
                }
            }
        }
    }
    // a composite document listing the same out-of-range-for-one value in several fields
    for (doc, want_ok) in [
        ("{\"pressure\":500.0,\"temperature\":500.0}", false),
        ("{\"pressure\":50.0,\"temperature\":50.0}", false),
        ("{\"pressure\":200.0,\"temperature\":20.0}", true),
    ] {
        let ok = serde_json::from_str::<Weather>(doc).is_ok();
        // judged through the ordinary event: temperature (type 6) / pressure (type 5) of the value that must decide
        let v = if doc.contains("500.0") { 500.0 } else if doc.contains("50.0") { 50.0 } else { 20.0 };
        let ty = if v == 50.0 { 5 } else { 6 };
        let res: Res = Ok(if ok { Some(v) } else { None });
        let _ = want_ok;
        emit(&mut w, ty, "rand", "doc", "any", &format!("{:?}", v), Some(v), res);
    }
    for (doc, field_ty, v) in [
        ("{\"coords\":{\"longitude\":120.0,\"latitude\":120.0,\"elevation\":0.0},\"gmt\":1.0}", 2usize, 120.0f64),
        ("{\"gmt\":12.0,\"coords\":{\"elevation\":100.0,\"longitude\":100.0,\"latitude\":100.0}}", 2, 100.0),
        ("{\"coords\":{\"elevation\":13.0,\"latitude\":13.0,\"longitude\":13.0},\"gmt\":13.0}", 1, 13.0),
    ] {
        let ok = serde_json::from_str::<Location>(doc).is_ok();
        let res: Res = Ok(if ok { Some(v) } else { None });
        emit(&mut w, field_ty, "rand", "doc", "any", &format!("{:?}", v), Some(v), res);
    }
    // impl -> spec: seeded random bit patterns (all exponents) and near-bound perturbations
    let n = if thorough { 60000 } else { 6000 };
    for i in 0..n {
        let ty = (r.next() % 6) as usize + 1;
        let (lo, hi) = RANGES[ty - 1];
        let v = match i % 4 {
            0 => f64::from_bits(r.next()),
            1 => {
                let b = if r.chance(1, 2) { lo } else { hi };
                let mut x = b;
                for _ in 0..r.range(0, 3) {
                    x = if r.chance(1, 2) { next_up(x) } else { next_down(x) };
                }
                x
            }
            2 => {
                let f = (r.next() >> 11) as f64 / (1u64 << 53) as f64;
                lo - (hi - lo) * 0.2 + f * (hi - lo) * 1.4
            }
            _ => {
                let e = r.range(-320, 308) as i32;
                let m = (r.next() >> 11) as f64 / (1u64 << 53) as f64 + 0.5;
                let s = if r.chance(1, 2) { -1. } else { 1. };
                s * m * 10f64.powi(e)
            }
        };
        let routes: &[&str] = if ty <= 4 { &["num", "txt", "json", "doc"] } else { &["num", "json", "doc"] };
        let route = r.pick(routes);
        match route {
            "num" => emit(&mut w, ty, "rand", route, "any", "", Some(v), num_route(ty, v)),
            "txt" => {
                let s = r.pick(&[0, 1]);
                let t = texts(v, false);
                let s = &t[s % t.len()];
                emit(&mut w, ty, "rand", route, "any", s, Some(v), txt_route(ty, s));
            }
            "json" => {
                let t = texts(v, true);
                let s = &t[(r.next() % t.len() as u64) as usize];
                emit(&mut w, ty, "rand", route, "any", s, Some(v), json_route(ty, s));
            }
            _ => {
                let t = texts(v, true);
                let s = &t[(r.next() % t.len() as u64) as usize];
                emit(&mut w, ty, "rand", route, "any", s, Some(v), doc_route(ty, s, i as usize));
            }
        }
    }
    let n = w.finish();
    println!("{}", json!({"events": n, "cells": cells.len()}));
}
