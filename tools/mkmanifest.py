#!/usr/bin/env python3
"""Regenerates MANIFEST.json from the table below (kept here so the manifest stays consistent)."""
import json, os
V = os.path.dirname(os.path.dirname(os.path.abspath(__file__)))
props = [json.loads(l) for l in open(os.path.join(V, 'properties.jsonl'))]

CLAIMS = {
 "C14": dict(
   text="TLC checks the implementation-shaped state machine of date.rs (one action per loop iteration) against the property-level definitions for all lengths -5..70 x k 0..64 incl. termination; every recorded call of num_days/partition/range API of the real code (the model's whole (len,k) table at anchor dates + seeded random spans to 2000 days, reversed ranges under a watchdog) is validated by TLC against the property level; Apalache discharges the exact-cover lemma of the partition loop for unbounded length and k; ranges across calendar seams (1582, year 0/1) and across the season without twilight (with a preceding range call on the same thread) are compared day by day with fresh-thread single-date calls",
   note="chrono date arithmetic trusted; range-vs-single-date equality computed by the harness with the library's own PartialEq",
   tech="TLA+ spec (DateRange) + TLC model checking + Apalache inductive lemma + TLC trace validation of recorded public calls", ref="§5 C14"),
 "C17": dict(
   text="TLC checks that the search loops of hijri_date.rs, transcribed as a state machine, compute the 30-year-cycle tabular calendar for every day within 62 Hijri years of the epoch; the real converter is swept over ALL 3,652,059 dates and every month start / irregularity / panic (lossless compression, ~124k events) is validated by TLC against the cycle definition, the civil weekday and the civil date",
   note="chrono's Gregorian calendar is cross-checked per event against Calendar.tla; the 'plain successor' compression is done by the harness",
   tech="TLA+ spec (HijriDefs/Hijri) + TLC model checking + exhaustive-domain trace validation", ref="§5 C17"),
 "C18": dict(
   text="TLC checks the construction state machine (parse -> range check -> accept/reject) for all 6 types x 12 value classes x 4 routes; every cell is concretised with exact bit patterns (bounds +-1 ulp, +-0, subnormals, NaN payloads, infinities, huge) and run through try_from / FromStr / serde_json / composite Location, Weather and Params documents; each recorded attempt (plus seeded random bit patterns) is judged by TLC from the logged IEEE bits against the documented bounds, incl. bit-identical read-back",
   note="Rust float formatting and serde_json number printing are trusted to round-trip; for JSON routes the reference value is the number serde_json itself delivers for the literal",
   tech="TLA+ spec (Bounded/BoundedDefs) + TLC model checking + decision-table replay + TLC trace validation on IEEE bit patterns", ref="§5 C18"),
 "C15": dict(
   text="TLC explores every interleaving of main thread, collector and workers of ParRange.tla (one action per hook point; days 0..6, parallelism 1..4, threshold 0..2) for safety (result = sequential map, no send to a gone receiver, no duplicate) and termination under weak fairness; the real prayer_times_dt_rng_block is run hooked (parallelism override 1..64, 0..6000 days, thresholds 0..400, 8 delay profiles at every send/recv/spawn/drop point) and every run's totally ordered event log is validated by TLC as a behaviour of the same spec, all invariants evaluated in every state, result compared with the sequential API; spec -> impl: every maximal behaviour of the model for tiny constants (2 883 schedules in quick) is replayed through the hook controller, which releases the threads at the hook points in exactly that order, and the real run must follow it",
   note="std mpsc/thread::scope semantics as modelled; the hooks' ordering lock makes send and drop(tx) atomic with their log entries; worker Sender drops are unlogged and composed into the recv-Err step; hangs are detected by a 25 s watchdog",
   tech="TLA+ spec (ParRange/ParRangeSched) + TLC model checking incl. liveness + schedule replay into the hooked code + TLC trace validation", ref="§5 C15"),
 "C05": dict(
   text="TLC checks on PrayerDay.tla (staged pipeline model, every policy x validity pattern) that a finished call has seven entries incl. Dhuhr and no flag without a policy; every recorded public call (|lat|<=60, named methods + custom angles, 4 roundings, weather) is validated by TLC: seven well-formed entries, the conventionally computed ones ordered around Dhuhr within 12 h, no flag under policy None",
   note="'conventionally computed' = reported unflagged and also reported by the same call under policy None; order measured as signed clock distance from Dhuhr",
   tech="TLA+ spec (PrayerDay) + TLC model checking + TLC trace validation of recorded public calls", ref="§5 C05"),
 "C07": dict(
   text="TLC explores PrayerDay.tla (Panic is a state; 15 policies x 24 validity patterns x interval/offset/rounding choices x substitute-latitude and good-day environments) for NoPanic/termination and GoodDay.tla for termination of the search; the pre-fix unwrap (D2) is shown reachable with LegacyUnwrap; 15k random + ~40k threshold-day (quick) / 400k (thorough) guarded public calls over the whole input product incl. the poles are validated: seven well-formed entries, Dhuhr present, no panic, < 20 s",
   note="bounded time = 20 s per call watchdog (slowest observed call logged in evidence); inputs sampled, not enumerated",
   tech="TLA+ spec (PrayerDay, GoodDay) + TLC model checking + TLC trace validation of guarded calls", ref="§5 C07"),
 "C08": dict(
   text="TLC checks the C08 clauses (Fajr/Isha-only policies leave the other four alone; 'invalid' policies keep valid Fajr/Isha; identity when all exist; unflagged = conventional) as invariants of PrayerDay.tla over every policy x validity pattern; each recorded policy run is paired with the policy-None run of the same input and validated by TLC with exact equality",
   note="quantified over the 8 named methods as the property states (interval consumers with angle-based methods only; half-of-night exempt from the flag clause); Imsaak is governed by C12",
   tech="TLA+ spec (PrayerDay) + TLC model checking + TLC trace validation of paired public calls", ref="§5 C08"),
 "C09": dict(
   text="TLC checks GoodDay.tla (one action per probe) against the property-level choice 'closest good date, earlier on ties' for all validity patterns over offsets -6..6 and shows the pre-fix bound (D3) violates it; for recorded nearest-good-day calls (every day of whole years at |lat| 49..64 both hemispheres + random twilight-edge cases) TLC redoes the choice from the logged conventional results of the neighbouring dates and demands equality to the second and the extreme flags; Apalache discharges the inductive invariant of the probe loop for every validity pattern over +-40 days",
   note="|lat| <= 64; neighbours are logged out to the first good date on either side",
   tech="TLA+ spec (GoodDay, PrayerDayTrace) + TLC model checking + Apalache inductive lemma + TLC trace validation", ref="§5 C09"),
 "C10": dict(
   text="the policy writers and the interval rewrite are specified in PrayerDayDefs.tla and model-checked (interval-defined Fajr/Isha keep their definition, replaced => flagged); for recorded calls under the 10 policies C10 names TLC recomputes the result from the logged raw conventional times at the site and at the substitute latitude in integer seconds and demands agreement within 3 s and exact flags",
   note="|lat| <= 60, natural zone, Shurooq < Dhuhr < Maghrib inside the civil day (property precondition)",
   tech="TLA+ spec (PrayerDayDefs) + TLC model checking + TLC trace validation", ref="§5 C10"),
 "C11": dict(
   text="TLC checks Rounding.tla: the implementation-shaped conversion (negative-hour wrap loop, split, carry, final wrap) equals the property-level function for every second from -25 h to +50 h x 4 modes x 2 classes (thorough; stride 7 in quick) with 9 invariants; the real code is swept through the seconds of the day with fractional-minute offsets (every second in thorough) and each mode's output must equal RoundClock of the unrounded output; Apalache discharges the same lemma for every integer number of seconds by induction over the wrap loop",
   note="exact comparison: both runs share the float path up to the rounding switch",
   tech="TLA+ spec (Rounding) + TLC model checking + Apalache inductive lemma + TLC trace validation of an every-second sweep", ref="§5 C11"),
 "C12": dict(
   text="TLC checks the frame conditions on PrayerDay.tla (an offset reaches only its prayer, Imsaak follows Fajr; interval definitions; extreme Fajr => extreme Imsaak an interval earlier; LegacyImsaak shows D7); recorded pairs of public calls differing in exactly one parameter (each offset key, each interval, +-1 degree angles, school, weather incl. absent-vs-default) and policy runs are validated by TLC",
   note="frame conditions under policy None; shifts to +-1 s; 'unchanged' exactly; the Imsaak offset key is held to 'no effect'",
   tech="TLA+ spec (PrayerDay) + TLC model checking + TLC trace validation of paired public calls", ref="§5 C12"),
 "C01": dict(
   text="Sun.tla specifies an ephemeris independent of the library (Meeus low-precision theory in 32-bit fixed point; its envelope is model-checked by SunMC: unit vector, declination <= obliquity, daily motion, sidereal gain, mean noon within the equation of time); for every recorded public call TLC evaluates it at the reported Dhuhr (UT via the gmt offset) and demands |hour angle| <= 14 s and upper transit; Dhuhr must be reported at all latitudes incl. the poles; design level: JulianDay.tla (the Julian-day formula is the civil day count plus a constant for every date 1583..2399) and RaInterp.tla (RA unwrapping across 360->0), each with a Legacy switch TLC must refute",
   note="tolerance = 10 s + 3 s oracle error + 1 s truncation; Delta-T ignored by both sides; quick samples dates (equinox week, month/year ends, leap days + random), thorough every 5th date 1600..2399",
   tech="TLA+ environment spec (Sun/FixedPoint) + TLC model checking of JulianDay/RaInterp/SunMC + TLC trace validation of recorded public calls", ref="§5 C01"),
 "C02": dict(
   text="TLC evaluates Sun.tla at the reported Shurooq and Maghrib instants of recorded calls (|lat|<=60, weather absent/corners/interior): geometric altitude -0.8333 within 0.065 degree, Shurooq before / Maghrib after the same day's Dhuhr by hour-angle sign; paired calls without/with weather: Shurooq/Maghrib move < 60 s, Dhuhr/Asr and angle-defined Fajr/Isha identical, interval-defined Isha moves with Maghrib",
   note="tolerance 0.05 + 0.015 degree (oracle); events attributed to the solar day of the reported Dhuhr",
   tech="TLA+ environment spec (Sun) + TLC trace validation", ref="§5 C02"),
 "C03": dict(
   text="for recorded calls with the 6 angle methods and custom angles TLC checks at Fajr, Isha and Imsaak: the hour-angle formula with the date's declination (from Sun.tla at 0 h local) gives the configured depression within 0.042 degree, the instantaneous altitude from Sun.tla is within 0.515 degree, proper side of noon; paired calls with larger angles: Fajr/Imsaak not later, Isha not earlier, existence monotone",
   note="declination of the date = at 0 h local civil time (library's and Meeus' convention)",
   tech="TLA+ environment spec (Sun) + TLC trace validation", ref="§5 C03"),
 "C04": dict(
   text="TLC solves cot a = k + tan|lat - dec| by bisection in fixed point (dec from Sun.tla) and compares with the altitude the hour-angle formula gives at the reported Asr (0.042 degree), incl. a zenith-passage stratum; Dhuhr < Asr < Maghrib; paired Shafi/Hanafi calls: Hanafi strictly later, nothing else differs",
   note="declination of the date = at 0 h local civil time",
   tech="TLA+ environment spec (Sun) + TLC trace validation", ref="§5 C04"),
 "C06": dict(
   text="for recorded policy-None calls up to latitude +-89.5, stratified around the onset/end of missing twilight and polar day/night, TLC derives the Sun's extreme altitudes of the date from Sun.tla's declination at 0 h and 24 h local and demands: surely reached => reported, never reached => Invalid, for Fajr, Isha, Imsaak, Shurooq, Maghrib and Asr (exempt within 0.065 degree of the defining altitude, and Asr when the Sun does not culminate above the horizon)",
   note="exemption band = property's 0.05 degree + oracle 0.015 degree",
   tech="TLA+ environment spec (Sun) + TLC trace validation", ref="§5 C06"),
 "C13": dict(
   text="a history of consecutive dates at one site is validated by TLC as a behaviour of SolarTrace's HDay action, which carries the two previous days as state and bounds the first difference (< 4 min) and the second difference (5/8/12 s + 2 s truncation, by prayer and latitude band); quick: equinox, Feb/March and year-end windows of 40 site-years + 3000 random triples; thorough: every consecutive date 1600..2399 at 2 sites",
   note="no oracle needed; circular clock differences; bounds + 2 s for three truncated times",
   tech="TLA+ action property over recorded histories (TLC trace validation with state)", ref="§5 C13"),
 "C20": dict(
   text="pairs of calls for the same date at two zone settings (gmt +-0.5/1/3 h; 15 degrees east with gmt + 1 h) are validated by TLC: every entry shifts by d (resp. stays) within 12 s, validity equal; known finding F1 (3-h shifts deviate up to ~17 s) is modelled as a named spec action enabled only while listed in known_findings.json",
   note="entries within 30 s of civil midnight or moved across it are skipped (adjacent solar day's event); tolerance 10 s + 2 s truncation",
   tech="TLA+ relational spec (SolarTrace) + TLC trace validation of paired public calls", ref="§5 C20"),
 "C16": dict(
   text="Qibla.tla defines the bearing by the east/north components of the great circle to the Kaaba (independent of the library's atan2 formula) and QiblaMC model-checks the definition's own symmetries on a grid; every recorded Qibla::new call (grid, random, date line, Kaaba meridian/antimeridian, near the Kaaba and its antipode) is validated by TLC with a cross/dot-product test, the range (-180,180], label = sign, printed text = magnitude; symmetry pairs (elevation independence, mirror, meridian 0/180, sign = side) are compared at 1e-6 degree in integers",
   note="WEAKER THAN STATED: the vector agreement is decided to ~0.001 degree (+3e-4 degree / sin(distance to Kaaba/antipode)) because TLC integers are 32-bit; the property asks 1e-6 degree. Quadrant, atan-vs-atan2, sign, swapped-coordinate, radian/degree slips and constant errors >= 0.003 degree are caught; a 1e-3 degree constant perturbation is not",
   tech="TLA+ spec (Qibla/FixedPoint) + TLC model checking of the definition + TLC trace validation of recorded calls", ref="§5 C16"),
 "C19": dict(
   text="Cli.tla specifies the tool as a sequential process (parse -> reject | read file / build config -> write params -> compute -> output) over 6480 abstract scenarios and TLC checks: a rejected command line exits non-zero before anything is computed, written or printed; an accepted one writes exactly the files asked for; the scenarios are sampled (all accepted ones several times, rejected ones biased to a single bad field), concretised with seeded values and run against the binary built from /repo; TLC validates each run's exit status, files and terminal output against the model's ending, the decoded JSON / parsed listing against the library, and -p/-i round trips byte for byte",
   note="Lib(cfg) is the library (prayer_times_dt_rng) as decided by the other properties; dates are always passed (no dependence on today's date); the listing format is checked structurally (header with Hijri text + civil month/year, seven entry lines with the library's Display text)",
   tech="TLA+ spec (Cli) + TLC model checking + scenario replay into the real binary + TLC trace validation", ref="§5 C19"),
}
NA_REASON = "check under construction in this round (DESIGN.md §8 build order); not yet claimed"

man = {
 "version": 1,
 "setup_cmd": "cd /verif/harness && (test -f Cargo.lock || cp /repo/Cargo.lock Cargo.lock) && CARGO_NET_OFFLINE=true cargo build --release --offline",
 "hooks": {"guard": "ipt_verif",
           "enable": "rustflags --cfg ipt_verif in /verif/harness/.cargo/config.toml; the harness builds /repo as a path dependency, so every check rebuilds /repo's working tree with hooks on",
           "baseline_off_cmd": "cd /repo && cargo test --workspace --no-fail-fast --offline",
           "source_commits": [], "add_only": True},
 "engines": [{"name": "tlc", "path": "/verif/spec", "serves_properties": sorted(CLAIMS),
              "kind_free_text": "explicit TLA+ specification checked with TLC; traces recorded from the real code validated against it by TLC; TLC-generated scenarios replayed into the real code"}],
 "checks": [], "not_applicable": [],
 "notes": "See DESIGN.md. bin/check <ID> --tier quick|thorough [--replay file] is the single entry point; exit 2 = tool error. All generators drive the library through harness common::call: persistent worker thread with a 20 s watchdog, a neighbour call before the call, a fresh-thread repeat and range-API cross-checks (events `impure` / `hang` are accepted by no trace action). The known finding F1 (C20) is a named action of the trace specification enabled from known_findings.json; ten defects (D1-D10) are repaired by fix: commits in /repo and listed there as fixed. Unbounded lemmas by Apalache: spec/apalache (C09, C11, C14). bin/conform checks behaviour outside the listed properties (Surface.tla: texts, method table, CLI date defaults) and the whole day-pipeline model (PrayerDayTrace!PipeCall, with an environment report) and is not registered here.",
}
hooks_file = os.path.join(V, 'tools', 'hook_commits.txt')
if os.path.exists(hooks_file):
    man["hooks"]["source_commits"] = [l.strip() for l in open(hooks_file) if l.strip()]
for p in props:
    i = p['id']
    if i in CLAIMS:
        c = CLAIMS[i]
        man['checks'].append({
          "property_id": i, "quick_cmd": f"bin/check {i} --tier quick", "thorough_cmd": f"bin/check {i} --tier thorough",
          "evidence_file": f"/verif/evidence/{i}.json", "replay_cmd_template": f"bin/check {i} --replay {{path}}", "engine": "tlc",
          "level_claimed": {"category": "model_checking", "text": c['text'], "design_ref": "DESIGN.md " + c['ref']},
          "level_note": c['note'], "technique": c['tech']})
    else:
        man['not_applicable'].append({"property_id": i, "reason": NA_REASON})
json.dump(man, open(os.path.join(V, 'MANIFEST.json'), 'w'), indent=1)
print("claimed", sorted(CLAIMS))
