#!/usr/bin/env python3
"""Systematic one-token mutants of the library (complement to the sub-agent seeds).
phase 1:  tools/mutate.py gen <scratch-worktree> <outdir> [per_file]   -> outdir/mNNN.diff for mutants that compile and
          pass the existing suite (94/0) in the scratch worktree; outdir/index.json records every mutant tried
phase 2:  tools/mutate.py run <outdir>   -> applies each survivor to /repo, runs the quick checks that own the file, reverts
Mutation operators: relational boundary (< <= > >=), == / !=, + / -, * / /, && / ||, integer literal +1, float literal *1.02."""
import json, os, random, re, subprocess, sys

FILES = {
    "src/prayer_times/hours.rs": ["C01", "C02", "C03", "C04", "C11", "C07"],
    "src/prayer_times/ext_lat.rs": ["C08", "C09", "C10", "C07", "C12"],
    "src/prayer_times/mod.rs": ["C12", "C15", "C14", "C05", "C07"],
    "src/prayer_times/date.rs": ["C14", "C15"],
    "src/prayer_times/params.rs": ["C12", "C03", "C19"],
    "src/geo/julian_day.rs": ["C01", "C13"],
    "src/geo/astro.rs": ["C01", "C02", "C06"],
    "src/geo/qibla.rs": ["C16"],
    "src/geo/coordinates.rs": ["C18", "C19"],
    "src/geo/weather.rs": ["C18", "C02"],
    "src/hijri_date.rs": ["C17"],
    "src/lib.rs": ["C18"],
    "src/angle.rs": ["C01", "C16", "C02"],
    "src/main.rs": ["C19"],
}
OPS = [
    (r" <= ", " < "), (r" < ", " <= "), (r" >= ", " > "), (r" > ", " >= "),
    (r" == ", " != "), (r" != ", " == "),
    (r" \+ ", " - "), (r" - ", " + "), (r" \* ", " / "), (r" / ", " * "),
    (r" && ", " || "), (r" \|\| ", " && "),
    (r" \+= ", " -= "), (r" -= ", " += "),
]


def code_lines(text):
    """indices of lines outside #[cfg(test)] modules, comments, attribute and use lines"""
    out, in_tests = [], False
    for i, ln in enumerate(text.split("\n")):
        st = ln.strip()
        if st.startswith("#[cfg(test)]"):
            in_tests = True
        if in_tests or st.startswith("//") or st.startswith("#[") or st.startswith("use ") or st.startswith("///"):
            continue
        out.append(i)
    return out


def sites(text):
    lines = text.split("\n")
    res = []
    for i in code_lines(text):
        ln = lines[i]
        code = ln.split("//")[0]
        for pat, rep in OPS:
            for m in re.finditer(pat, code):
                res.append((i, m.start(), m.end(), rep, "op"))
        for m in re.finditer(r"(?<![\w.])(\d+)(?![\w.])", code):
            if "[" in code[max(0, m.start() - 1):m.start()]:
                continue
            res.append((i, m.start(), m.end(), str(int(m.group(1)) + 1), "int"))
        for m in re.finditer(r"(?<![\w.])(\d+\.\d+)(?![\w])", code):
            res.append((i, m.start(), m.end(), repr(round(float(m.group(1)) * 1.02 + (0.01 if float(m.group(1)) == 0 else 0), 6)), "float"))
    return res


def sh(cmd, cwd, timeout=900):
    try:
        p = subprocess.run(cmd, cwd=cwd, shell=True, capture_output=True, text=True, timeout=timeout)
        return p.returncode, p.stdout + p.stderr
    except subprocess.TimeoutExpired:
        return 124, "timeout"


def gen(wt, outdir, per_file, seed=20261003, skip_index=None, files=None):
    os.makedirs(outdir, exist_ok=True)
    rnd = random.Random(seed)
    index = []
    tried = set()
    if skip_index and os.path.exists(skip_index):
        tried = {(m["file"], m["line"]) for m in json.load(open(skip_index))}
    n = (200 if seed == 11 else 100) if tried else 0
    for f in (files or FILES):
        path = os.path.join(wt, f)
        text = open(path).read()
        ss = sites(text)
        # astro.rs is mostly coefficient tables: sample fewer literals there
        rnd.shuffle(ss)
        picked, seen_lines = [], set()
        for s in ss:
            ltxt = text.split("\n")[s[0]].strip()
            if s[0] in seen_lines or (f, s[0] + 1) in tried or ltxt.startswith("+ ") or "as FromStr" in ltxt or "as TryFrom" in ltxt or "verif_hooks" in ltxt:
                continue
            seen_lines.add(s[0])
            picked.append(s)
            if len(picked) >= per_file:
                break
        for (i, a, b, rep, kind) in picked:
            n += 1
            lines = text.split("\n")
            old = lines[i]
            lines[i] = old[:a] + rep + old[b:]
            open(path, "w").write("\n".join(lines))
            rc, out = sh("cargo test --offline 2>&1 | grep -E '^test result|^error' | head -20", wt, 600)
            res = [l for l in out.split("\n") if l.startswith("test result")]
            passed = sum(int(re.search(r"(\d+) passed", l).group(1)) for l in res) if res else 0
            failed = sum(int(re.search(r"(\d+) failed", l).group(1)) for l in res) if res else 0
            status = "survived" if (passed == 94 and failed == 0 and "error" not in out) else ("compile" if not res or "error" in out else "killed_by_suite")
            name = f"m{n:03d}"
            if status == "survived":
                rc2, diff = sh("git diff", wt)
                open(os.path.join(outdir, name + ".diff"), "w").write(diff)
            index.append({"id": name, "file": f, "line": i + 1, "kind": kind, "old": old.strip(), "new": lines[i].strip(), "status": status})
            print(name, f, i + 1, status, "|", old.strip()[:70], "=>", lines[i].strip()[:70], flush=True)
            open(path, "w").write(text)
            json.dump(index, open(os.path.join(outdir, "index.json"), "w"), indent=1)
    sh("git checkout -- .", wt)


def run(outdir, only=None):
    index = json.load(open(os.path.join(outdir, "index.json")))
    for m in index:
        if m["status"] != "survived" or m.get("checks_run") or (only and m["id"] not in only):
            continue
        rc, out = sh("git diff --quiet", "/repo")
        if rc != 0:
            print("/repo has uncommitted changes"); sys.exit(2)
        rc, out = sh(f"git apply {os.path.join(outdir, m['id'] + '.diff')}", "/repo")
        if rc != 0:
            m["checks_run"] = ["patch does not apply"]; continue
        caught, ran = [], []
        for c in FILES[m["file"]]:
            rc, out = sh(f"bin/check {c} --tier quick 2>/dev/null | grep -c '^VIOLATION'", "/verif", 1800)
            rc2 = 1 if out.strip() not in ("", "0") else 0
            ran.append(c)
            if rc2 == 1:
                caught.append(c)
                break            # one owner is enough
        sh("git checkout -- .", "/repo")
        m["checks_run"], m["caught_by"] = ran, caught
        print(m["id"], m["file"], m["line"], "caught_by", caught, "| ran", ran, "|", m["old"][:60], "=>", m["new"][:60], flush=True)
        json.dump(index, open(os.path.join(outdir, "index.json"), "w"), indent=1)


if __name__ == "__main__":
    if sys.argv[1] == "gen":
        gen(sys.argv[2], sys.argv[3], int(sys.argv[4]) if len(sys.argv) > 4 else 10)
    elif sys.argv[1] == "gen2":
        # second batch: other sites (those of the first index are skipped), behaviour files only
        gen(sys.argv[2], sys.argv[3], int(sys.argv[4]), seed=7, skip_index=sys.argv[5],
            files=[f for f in FILES if f not in ("src/geo/astro.rs", "src/angle.rs", "src/lib.rs")])
    elif sys.argv[1] == "gen3":
        gen(sys.argv[2], sys.argv[3], int(sys.argv[4]), seed=11, skip_index=sys.argv[5],
            files=["src/prayer_times/ext_lat.rs", "src/prayer_times/hours.rs", "src/prayer_times/mod.rs", "src/prayer_times/date.rs",
                   "src/hijri_date.rs", "src/main.rs", "src/geo/qibla.rs"])
    else:
        run(sys.argv[2], set(sys.argv[3:]) or None)
