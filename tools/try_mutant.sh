#!/bin/sh
# usage: tools/try_mutant.sh <patch> <ID>... : apply a patch to /repo, run the quick checks, undo it.
# Never leaves /repo modified. Exit status: number of listed checks that did NOT report a violation.
patch="$(realpath "$1")"; shift
cd /repo || exit 2
git diff --quiet || { echo "/repo has uncommitted changes"; exit 2; }
git apply "$patch" || { echo "patch does not apply"; exit 2; }
missed=0
for id in "$@"; do
  out=$(cd /verif && bin/check "$id" --tier quick 2>/dev/null); rc=$?
  n=$(echo "$out" | grep -c '^VIOLATION')
  echo "mutant=$(basename "$patch") check=$id rc=$rc violations=$n"
  [ "$rc" = 1 ] || missed=$((missed+1))
done
git checkout -- . 
exit $missed
