#!/usr/bin/env python3
"""Regenerate the seed table of DESIGN.md §7 from seeded/*/meta.json (between the table header and the next blank line)."""
import json, glob, os, re
V = os.path.dirname(os.path.dirname(os.path.abspath(__file__)))
rows = []
tot = caught = own = 0
for d in sorted(glob.glob(os.path.join(V, "seeded", "*"))):
    m = json.load(open(os.path.join(d, "meta.json")))
    name = os.path.basename(d)
    pid = m.get("property") or name[:3]
    cb = m.get("caught_by") or []
    tot += 1
    caught += bool(cb)
    own += pid in cb
    clean = lambda s, n: re.sub(r"\s+", " ", (s or "").replace("|", "/"))[:n]
    rows.append(f"| {name} | {pid} | {clean(m.get('summary'), 150)} | {clean(m.get('needs'), 100)} | {', '.join(cb) if cb else '**none**' + (' (' + clean(m.get('note'), 80) + ')' if m.get('note') else '')} |")
s = open(os.path.join(V, "DESIGN.md")).read()
hdr = "| Seed | Property | Change | Needs | Caught by (quick) |\n|------|----------|--------|-------|-------------------|\n"
i = s.index(hdr) + len(hdr)
j = s.index("\n\n", i)
s = s[:i] + "\n".join(rows) + s[j:]
open(os.path.join(V, "DESIGN.md"), "w").write(s)
print(f"{tot} seeds, {caught} caught, {own} by own property's check")
