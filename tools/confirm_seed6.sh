#!/bin/bash
# usage: tools/confirm_seed6.sh <ID> <round-tag> : confirm the three changes a sub-agent left in /tmp/wt/<ID><tag>/out
# (change{k}.diff, demo{k}.rs printing results, meta{k}.json) inside that scratch worktree: patch applies to clean HEAD,
# builds, the unedited suite passes (94/0 incl. doctests), and the demo's output differs from the clean tree's.
# On success stores /verif/seeded/<ID><tag>{a,b,c}/ (patch.diff, demo.rs, meta.json).
id="$1"; tag="$2"; wt=/tmp/wt/$id$tag; out=$wt/out
cd "$wt" || exit 2
git checkout -q -- . ; git clean -fdq -e out -e target
for k in 1 2 3; do
  x=$(echo abc | cut -c$k)
  [ -f "$out/change$k.diff" ] || { echo "id=$id$tag$x missing"; continue; }
  mkdir -p examples; cp "$out/demo$k.rs" examples/seed_demo.rs
  clean=$(cargo run -q --offline --example seed_demo 2>&1 | tail -40)
  if git apply "$out/change$k.diff" 2>/dev/null; then ap=ok; else ap=FAIL; fi
  onlysrc=$(git diff --name-only | grep -vc '^src/')
  t=$(cargo test --offline 2>&1 | grep -E '^test result' | awk '{p+=$4; f+=$6} END {print p"/"f}')
  bug=$(timeout 120 cargo run -q --offline --example seed_demo 2>&1 | tail -40)
  differs=no; [ "$clean" != "$bug" ] && differs=yes
  res="id=$id$tag$x apply=$ap nonsrc=$onlysrc suite=$t demo_differs=$differs"
  echo "$res"
  if [ "$ap" = ok ] && [ "$onlysrc" = 0 ] && [ "$t" = "94/0" ] && [ "$differs" = yes ]; then
    d=/verif/seeded/$id$tag$x; mkdir -p "$d"; cp "$out/change$k.diff" "$d/patch.diff"; cp "$out/demo$k.rs" "$d/demo.rs"
    python3 - "$id" "$tag$x" "$res" "$out/meta$k.json" "$clean" "$bug" <<'PY'
import json,sys
id,x,res,mp,clean,bug=sys.argv[1:7]
try: m=json.load(open(mp))
except Exception: m={}
json.dump({"property":id,"variant":x,"summary":m.get("summary"),"needs":m.get("manifests_when"),"failing_input":m.get("demo_input"),
 "files":m.get("files"),"confirmed":res,"demo_output_clean":clean[-1500:],"demo_output_changed":bug[-1500:],
 "what_i_ran":"tools/confirm_seed6.sh in the scratch worktree: patch applies to clean HEAD and touches only src/; cargo test --offline 94/0 with the patch; the demonstration (an example program) prints different results with and without the patch",
 "caught_by":None},open(f'/verif/seeded/{id}{x}/meta.json','w'),indent=1)
PY
    echo "  stored in $d"
  else echo "  NOT confirmed"; fi
  git checkout -q -- . ; git clean -fdq -e out -e target
done
