#!/bin/sh
# usage: tools/vt.sh <TraceModule> <trace.ndjson> [start]   -- validate a trace by hand, print the first unmatched event
cd /verif/spec
out=$(TRACE="$2" START="${3:-1}" JAVA_TOOL_OPTIONS="-Xss1g -Xmx6g -Dtlc2.tool.queue.IStateQueue=StateDeque" timeout 1200 tlc -workers 1 -metadir /verif/work/t/vt$$ -cleanup -noGenerateSpecTE -config "$1.cfg" "$1.tla" 2>&1)
echo "$out" | grep -E 'MATCHED|Error|Finished|states generated' | head -8
m=$(echo "$out" | grep MATCHED | sed 's/<<"MATCHED", \(-\?[0-9]*\), .*/\1/')
[ -n "$m" ] && sed -n "$((m+1))p" "$2" | cut -c1-1500
rm -rf /verif/work/t/vt$$
