#!/bin/bash
# usage: tools/run_seed.sh <seeded-dir-name> <ID>... : apply seeded/<name>/patch.diff to /repo, run the quick checks, undo, record result
name="$1"; shift
cd /repo || exit 2
git diff --quiet || { echo "/repo has uncommitted changes"; exit 2; }
git apply "/verif/seeded/$name/patch.diff" || { echo "patch does not apply"; exit 2; }
caught=""
for id in "$@"; do
  out=$(cd /verif && bin/check "$id" --tier quick 2>/dev/null); rc=$?
  n=$(echo "$out" | grep -c '^VIOLATION')
  echo "seed=$name check=$id rc=$rc violations=$n"
  [ "$rc" = 1 ] && caught="$caught $id"
done
git checkout -- .
python3 - "$name" "$caught" "$*" <<'PY'
import json,sys
name,caught,ran=sys.argv[1],sys.argv[2].split(),sys.argv[3].split()
p=f'/verif/seeded/{name}/meta.json'
m=json.load(open(p))
prev=set(m.get('caught_by') or [])
m['caught_by']=sorted(prev|set(caught))
m['checks_run']=sorted(set(m.get('checks_run') or [])|set(ran))
json.dump(m,open(p,'w'),indent=1)
PY
