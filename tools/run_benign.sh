#!/bin/bash
# usage: tools/run_benign.sh <name> <patch> <note> <ID>... : a behaviour-preserving refactoring must raise NO alarm.
# Applies the patch to /repo, runs the quick checks, undoes it, stores /verif/benign/<name>/ (patch.diff, note.txt, meta.json).
name="$1"; patch="$(realpath "$2")"; note="$(realpath "$3")"; shift 3
cd /repo || exit 2
git diff --quiet || { echo "/repo has uncommitted changes"; exit 2; }
git apply "$patch" || { echo "patch does not apply"; exit 2; }
alarms=""; tool=""
for id in "$@"; do
  out=$(cd /verif && bin/check "$id" --tier quick 2>/dev/null); rc=$?
  echo "benign=$name check=$id rc=$rc violations=$(echo "$out" | grep -c '^VIOLATION')"
  [ "$rc" = 1 ] && alarms="$alarms $id"
  [ "$rc" = 2 ] && tool="$tool $id"
done
git checkout -- .
d=/verif/benign/$name; mkdir -p "$d"; cp "$patch" "$d/patch.diff"; cp "$note" "$d/note.txt"
python3 - "$name" "$alarms" "$tool" "$*" <<'PY'
import json,sys
name,alarms,tool,ran=sys.argv[1],sys.argv[2].split(),sys.argv[3].split(),sys.argv[4].split()
json.dump({"name":name,"checks_run":ran,"false_alarms":alarms,"tool_errors":tool},open(f'/verif/benign/{name}/meta.json','w'),indent=1)
PY
