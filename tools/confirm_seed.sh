#!/bin/bash
# usage: tools/confirm_seed.sh <ID> <a|b> : confirm a sub-agent's seeded change in a scratch worktree of /repo
# (compiles, existing tests pass with it, demo fails with it and passes without); on success stores it in /verif/seeded/<ID><x>/
id="$1"; x="$2"; src=/tmp/wt/out/$id
wt=/tmp/cs/$id$x
rm -rf "$wt"; mkdir -p /tmp/cs
git -C /repo worktree add -q "$wt" HEAD || exit 2
export CARGO_TARGET_DIR=$wt/target
cd "$wt" || exit 2
res="id=$id$x"
cp "$src/demo_$x.rs" tests/demo_seed.rs
if cargo test --offline --test demo_seed >/tmp/cs/$id$x.clean.log 2>&1; then res="$res demo_clean=pass"; else res="$res demo_clean=FAIL"; fi
if git apply "$src/$x.patch" 2>/dev/null; then res="$res apply=ok"; else res="$res apply=FAIL"; fi
rm tests/demo_seed.rs
t=$(cargo test --offline 2>&1 | grep -E '^test result' | awk '{p+=$4; f+=$6} END {print p"/"f}')
res="$res suite=$t"
cp "$src/demo_$x.rs" tests/demo_seed.rs
if cargo test --offline --test demo_seed >/tmp/cs/$id$x.bug.log 2>&1; then res="$res demo_bug=pass"; else res="$res demo_bug=fail"; fi
echo "$res"
cd /; git -C /repo worktree remove --force "$wt"
case "$res" in
  *demo_clean=pass*apply=ok*suite=94/0*demo_bug=fail*)
    d=/verif/seeded/$id$x; mkdir -p "$d"; cp "$src/$x.patch" "$d/patch.diff"; cp "$src/demo_$x.rs" "$d/demo.rs"
    python3 - "$id" "$x" "$res" <<'PY'
import json,sys
id,x,res=sys.argv[1:4]
m=json.load(open(f'/tmp/wt/out/{id}/meta.json'))
e=m.get(x,{})
json.dump({"property":id[:3],"variant":x,"summary":e.get("summary"),"needs":e.get("needs"),"failing_input":e.get("failing_input"),
 "files":e.get("files"),"confirmed":res,
 "what_i_ran":"tools/confirm_seed.sh: scratch worktree of /repo HEAD; demo passes on the clean tree; patch applies; cargo test --offline 94/0 with the patch; demo fails with the patch",
 "caught_by":None},open(f'/verif/seeded/{id}{x}/meta.json','w'),indent=1)
PY
    echo "  stored in $d";;
  *) echo "  NOT confirmed";;
esac
