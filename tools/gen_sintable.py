#!/usr/bin/env python3
"""Regenerates spec/SinTable.tla (sin(i*0.1 deg)*1e6, i=0..901)."""
import math
vals = [round(math.sin(math.radians(i / 10)) * 1e6) for i in range(0, 902)]
vals[900] = vals[901] = 1000000
print(vals[:5], len(vals))
